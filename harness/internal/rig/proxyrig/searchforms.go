package proxyrig

import (
	"encoding/hex"
	"fmt"
	"strings"

	"github.com/jackc/pgx/v5/pgproto3"

	"verif/harness/internal/rig/fakepg"
)

// C09 "forms" workload (PostgreSQL spelling): ONE comparison of a searchable column with a value, placed in every position
// of a statement a client can write it in, written with every operator of the equality family, and bound together with
// placeholders of other kinds. Values are taken from the rows the reference database holds right now, so conditions combined
// with AND have rows to select.
//
// FormStep.Demand tells the oracle which clause applies: true = the comparison is written with = / <> / != and decides which
// rows the statement selects ("an equality (or inequality) condition on that column sent through Acra is rewritten so that
// the database selects exactly the rows whose plaintext equals the searched value"); false = another operator of the family
// or a position that selects no rows: judged only if Acra rewrote the comparison.

// FormStep is one statement of the forms workload.
type FormStep struct {
	Step
	Form     string // position / operator / placeholder-mix class
	Demand   bool
	ValueBy  string // literal | placeholder | cast-placeholder | array-placeholder
	Searched []Val  // plaintexts compared with the searchable column
	Unsorted bool   // the statement has no ORDER BY (rows are compared as multisets anyway)
}

// FormGen generates FormSteps on top of a SessGen (ids, pools, protocol choices).
type FormGen struct {
	G *SessGen
	// Rows returns the plaintext rows of a table as the reference database holds them now (columns in TableSpec order).
	Rows func(table string) [][]fakepg.Value
	seq  int
}

// ValOf converts a stored reference value into a Val of the column's application type.
func ValOf(v fakepg.Value, t fakepg.ColType) Val {
	switch x := v.(type) {
	case nil:
		return Val{Null: true, Type: t}
	case int64:
		return Val{Type: t, I: x}
	case string:
		return Val{Type: fakepg.Text, S: x}
	case []byte:
		return Val{Type: fakepg.Bytea, B: append([]byte{}, x...)}
	}
	return Val{Null: true, Type: t}
}

func colIndex(t TableSpec, name string) int {
	for i, c := range t.Cols {
		if c.Name == name {
			return i
		}
	}
	return -1
}

// ConsistentTokenCols lists the columns of a table a condition can search by token.
func ConsistentTokenCols(t TableSpec) []ColSpec {
	var out []ColSpec
	for _, c := range t.Cols {
		if c.Kind == "token" && c.Consist {
			out = append(out, c)
		}
	}
	return out
}

// pickRow returns a row whose listed columns are all non-NULL and, for byte strings, non-empty (nil when there is none).
func (f *FormGen) pickRow(t TableSpec, cols ...ColSpec) []fakepg.Value {
	rows := f.Rows(t.Name)
	var ok [][]fakepg.Value
	for _, row := range rows {
		good := true
		for _, c := range cols {
			ci := colIndex(t, c.Name)
			if ci < 0 || ci >= len(row) || row[ci] == nil {
				good = false
				break
			}
			if b := ValOf(row[ci], c.AppType); (c.AppType == fakepg.Text || c.AppType == fakepg.Bytea) && len(b.Bytes()) == 0 {
				good = false
				break
			}
		}
		if good {
			ok = append(ok, row)
		}
	}
	if len(ok) == 0 {
		return nil
	}
	return ok[f.G.R.Intn(len(ok))]
}

// searched draws the value a form searches for: mostly the value of an existing row, else the generator's usual mix
// (absent, prefix of a stored value, pool value); never empty (the empty value is a finding of its own).
func (f *FormGen) searched(t TableSpec, c ColSpec) Val {
	g := f.G
	if g.R.Intn(4) != 0 {
		if row := f.pickRow(t, c); row != nil {
			return ValOf(row[colIndex(t, c.Name)], c.AppType)
		}
	}
	for i := 0; i < 8; i++ {
		if v := g.searchVal(t, c); !v.Null && len(v.Bytes()) > 0 {
			return v
		}
	}
	if c.AppType == fakepg.Text {
		return Val{Type: fakepg.Text, S: "absent"}
	}
	return Val{Type: fakepg.Bytea, B: []byte("absent")}
}

// arrayText spells values as the text form of a one-dimensional array.
func arrayText(vals []Val) string {
	var els []string
	for _, v := range vals {
		var s string
		if v.Type == fakepg.Text {
			s = v.S
		} else {
			s = `\x` + hex.EncodeToString(v.B)
		}
		s = strings.ReplaceAll(s, `\`, `\\`)
		s = strings.ReplaceAll(s, `"`, `\"`)
		els = append(els, `"`+s+`"`)
	}
	return "{" + strings.Join(els, ",") + "}"
}

// finishTextParams sends the statement with the extended protocol and explicit text-format parameters.
func (f *FormGen) finishTextParams(st *Step, sql string, params [][]byte, desc []string) {
	st.SQL = sql
	st.Proto = "extended-no-describe"
	st.ParamFmt = "text"
	st.ResFmt = "text"
	st.ParamDesc = desc
	st.Groups = [][]pgproto3.FrontendMessage{{
		&pgproto3.Parse{Query: sql},
		&pgproto3.Bind{ParameterFormatCodes: []int16{0}, Parameters: params},
		&pgproto3.Execute{},
		&pgproto3.Sync{},
	}}
}

// formNames is the catalogue; Next walks it round-robin so that a short run covers every class.
var formNames = []string{
	"nested:in-subselect-same-table",
	"op:is-distinct-from",
	"mixed:search-and-token-placeholders",
	"nested:comparison-equals-boolean",
	"op:in-list",
	"nested:scalar-subselect",
	"param:cast-placeholder",
	"op:not-equal-bang",
	"nested:not",
	"op:any-array-constructor",
	"mixed:token-placeholder-before-search-placeholder",
	"nested:boolean-test",
	"op:like",
	"nested:in-subselect-other-table",
	"op:is-not-distinct-from",
	"nested:case-when-condition",
	"op:nullif-is-null",
	"mixed:search-token-and-ordinary-placeholders",
	"nested:exists-correlated",
	"op:any-array-placeholder",
	"nested:cte",
	"op:not-in-list",
	"nested:derived-table",
	"op:not-like",
	"mixed:search-placeholder-token-literal",
	"nested:join-on-and",
	"op:all-array-constructor",
	"nested:union-all",
	"op:any-array-literal",
	"mixed:search-literal-token-placeholder",
	"nested:exists-other-table",
	"op:nullif-in-select-list",
	"nested:case-when-in-select-list",
	"op:in-list-single",
	"op:ilike",
	"mixed:search-or-token-placeholders",
	"mixed:same-placeholder-in-two-comparisons",
}

// FormNames returns the catalogue of form classes.
func FormNames() []string { return append([]string{}, formNames...) }

// Next generates the next form of the catalogue (ok=false when the tables cannot carry it, e.g. no consistently tokenized column).
func (f *FormGen) Next() (FormStep, bool) {
	for tries := 0; tries < len(formNames); tries++ {
		name := formNames[f.seq%len(formNames)]
		f.seq++
		if fs, ok := f.Form(name); ok {
			return fs, true
		}
	}
	return FormStep{}, false
}

// Form generates one statement of the named class.
func (f *FormGen) Form(name string) (FormStep, bool) {
	g := f.G
	r := g.R
	// a table with a searchable column (for mixed forms: also with a consistently tokenized one)
	var cands []TableSpec
	for _, t := range g.Tables {
		if len(searchCols(t)) == 0 {
			continue
		}
		if strings.HasPrefix(name, "mixed:") && len(ConsistentTokenCols(t)) == 0 {
			continue
		}
		cands = append(cands, t)
	}
	if len(cands) == 0 {
		return FormStep{}, false
	}
	t := cands[r.Intn(len(cands))]
	var other TableSpec
	for _, x := range g.Tables {
		if x.Name != t.Name {
			other = x
		}
	}
	sc := searchCols(t)
	c := sc[r.Intn(len(sc))]
	if name == "param:cast-placeholder" || name == "op:ilike" {
		// casts only where the application type is the storage type (bytea); ILIKE exists for text only
		want := fakepg.Bytea
		if name == "op:ilike" {
			want = fakepg.Text
		}
		var ok []ColSpec
		for _, x := range sc {
			if x.AppType == want {
				ok = append(ok, x)
			}
		}
		if len(ok) == 0 {
			return FormStep{}, false
		}
		c = ok[r.Intn(len(ok))]
	}
	fs := FormStep{Form: name, Demand: strings.HasPrefix(name, "nested:") || strings.HasPrefix(name, "mixed:") || strings.HasPrefix(name, "param:") || name == "op:not-equal-bang"}
	fs.Step = Step{Kind: "select", Table: t.Name, ResultCols: []string{"id"}}
	var params []boundVal
	useParam := r.Intn(2) == 0
	v := f.searched(t, c)
	fs.Searched = []Val{v}
	second := func() Val {
		v2 := f.searched(t, c)
		fs.Searched = append(fs.Searched, v2)
		return v2
	}
	e := func() string { return g.exprFor(v, useParam, &params, c) }
	eq := func(col string) string {
		// the comparison under test; now and then as an inequality
		if r.Intn(4) == 0 {
			return col + " <> " + e()
		}
		return col + " = " + e()
	}
	tn := t.Name
	sql := ""
	nres := 1
	switch name {
	case "nested:in-subselect-same-table":
		sql = fmt.Sprintf("select id from %s where id in (select id from %s where %s) order by id", tn, tn, eq(c.Name))
	case "nested:in-subselect-other-table":
		if other.Name == "" {
			return FormStep{}, false
		}
		fs.Step.Table = other.Name
		sql = fmt.Sprintf("select id from %s where id in (select id from %s where %s) order by id", other.Name, tn, eq(c.Name))
	case "nested:scalar-subselect":
		sql = fmt.Sprintf("select id from %s where id = (select id from %s where %s order by id limit 1) order by id", tn, tn, eq(c.Name))
	case "nested:exists-correlated":
		sql = fmt.Sprintf("select id from %s where exists (select 1 from %s as x where %s and x.id = %s.id) order by id", tn, tn, eq("x."+c.Name), tn)
	case "nested:exists-other-table":
		if other.Name == "" {
			return FormStep{}, false
		}
		fs.Step.Table = other.Name
		sql = fmt.Sprintf("select id from %s where exists (select 1 from %s where %s) order by id", other.Name, tn, eq(c.Name))
	case "nested:comparison-equals-boolean":
		switch r.Intn(4) {
		case 0:
			sql = fmt.Sprintf("select id from %s where (%s) = true order by id", tn, eq(c.Name))
		case 1:
			sql = fmt.Sprintf("select id from %s where (%s) <> false order by id", tn, eq(c.Name))
		case 2:
			sql = fmt.Sprintf("select id from %s where true = (%s) order by id", tn, eq(c.Name))
		default:
			sql = fmt.Sprintf("select id from %s where (%s) = (id > 0) order by id", tn, eq(c.Name))
		}
	case "nested:not":
		sql = fmt.Sprintf("select id from %s where not (%s) order by id", tn, eq(c.Name))
	case "nested:boolean-test":
		test := []string{"is true", "is not true", "is false", "is not false", "is unknown", "is not unknown"}[r.Intn(6)]
		if r.Intn(2) == 0 {
			sql = fmt.Sprintf("select id from %s where (%s) %s order by id", tn, eq(c.Name), test)
		} else {
			sql = fmt.Sprintf("select id from %s where %s %s order by id", tn, eq(c.Name), test)
		}
	case "nested:case-when-condition":
		if r.Intn(2) == 0 {
			sql = fmt.Sprintf("select id from %s where case when %s then true else false end order by id", tn, eq(c.Name))
		} else {
			sql = fmt.Sprintf("select id from %s where case when %s then id > 0 else id < 0 end order by id", tn, eq(c.Name))
		}
	case "nested:case-when-in-select-list":
		fs.Demand = false // selects no rows
		sql = fmt.Sprintf("select id, case when %s then 1 else 0 end from %s order by id", eq(c.Name), tn)
		nres = 2
		fs.ResultCols = []string{"id", "-"}
	case "nested:cte":
		sql = fmt.Sprintf("with q as (select id from %s where %s) select id from q order by id", tn, eq(c.Name))
	case "nested:derived-table":
		sql = fmt.Sprintf("select q.id from (select id, %s from %s) as q where %s order by q.id", c.Name, tn, eq("q."+c.Name))
	case "nested:join-on-and":
		if other.Name == "" {
			return FormStep{}, false
		}
		sql = fmt.Sprintf("select j1.id, j2.id from %s as j1 join %s as j2 on j1.id = j2.id and %s order by j1.id", tn, other.Name, eq("j1."+c.Name))
		nres = 2
		fs.ResultCols = []string{"id", "id"}
	case "nested:union-all":
		sql = fmt.Sprintf("select id from %s where %s union all select id from %s where id < 0", tn, eq(c.Name), tn)
		fs.Unsorted = true
	case "param:cast-placeholder":
		useParam = true
		fs.ValueBy = "cast-placeholder"
		if r.Intn(2) == 0 {
			sql = fmt.Sprintf("select id from %s where %s::bytea order by id", tn, eq(c.Name))
		} else {
			sql = fmt.Sprintf("select id from %s where %s::bytea and id > 0 order by id", tn, eq(c.Name))
		}
	case "op:not-equal-bang":
		sql = fmt.Sprintf("select id from %s where %s != %s order by id", tn, c.Name, e())
	case "op:is-distinct-from":
		sql = fmt.Sprintf("select id from %s where %s is distinct from %s order by id", tn, c.Name, e())
	case "op:is-not-distinct-from":
		sql = fmt.Sprintf("select id from %s where %s is not distinct from %s order by id", tn, c.Name, e())
	case "op:any-array-constructor":
		sql = fmt.Sprintf("select id from %s where %s = any(array[%s, %s]) order by id", tn, c.Name, e(), g.exprFor(second(), useParam, &params, c))
	case "op:all-array-constructor":
		sql = fmt.Sprintf("select id from %s where %s <> all(array[%s, %s]) order by id", tn, c.Name, e(), g.exprFor(second(), useParam, &params, c))
	case "op:any-array-literal":
		useParam = false
		arr := arrayText([]Val{v, second()})
		sql = fmt.Sprintf("select id from %s where %s = any('%s') order by id", tn, c.Name, strings.ReplaceAll(arr, "'", "''"))
	case "op:any-array-placeholder":
		arr := arrayText([]Val{v, second()})
		fs.ValueBy = "array-placeholder"
		f.finishTextParams(&fs.Step, fmt.Sprintf("select id from %s where %s = any($1) order by id", tn, c.Name), [][]byte{[]byte(arr)}, []string{c.Name + ":" + arr})
		fs.Tag = "form:" + name
		return fs, true
	case "op:in-list-single":
		sql = fmt.Sprintf("select id from %s where %s in (%s) order by id", tn, c.Name, e())
	case "op:in-list":
		sql = fmt.Sprintf("select id from %s where %s in (%s, %s) order by id", tn, c.Name, e(), g.exprFor(second(), useParam, &params, c))
	case "op:not-in-list":
		sql = fmt.Sprintf("select id from %s where %s not in (%s, %s) order by id", tn, c.Name, e(), g.exprFor(second(), useParam, &params, c))
	case "op:nullif-is-null":
		if r.Intn(2) == 0 {
			sql = fmt.Sprintf("select id from %s where nullif(%s, %s) is null order by id", tn, c.Name, e())
		} else {
			sql = fmt.Sprintf("select id from %s where nullif(%s, %s) is not null order by id", tn, c.Name, e())
		}
	case "op:nullif-in-select-list":
		sql = fmt.Sprintf("select id, nullif(%s, %s) from %s order by id", c.Name, e(), tn)
		nres = 2
		fs.ResultCols = []string{"id", "-"}
	case "op:like":
		sql = fmt.Sprintf("select id from %s where %s like %s order by id", tn, c.Name, e())
	case "op:not-like":
		sql = fmt.Sprintf("select id from %s where %s not like %s order by id", tn, c.Name, e())
	case "op:ilike":
		sql = fmt.Sprintf("select id from %s where %s ilike %s order by id", tn, c.Name, e())
	default:
		if !strings.HasPrefix(name, "mixed:") {
			return FormStep{}, false
		}
		// one row supplies the searched value and the token value, so that AND selects something
		tcs := ConsistentTokenCols(t)
		tk := tcs[r.Intn(len(tcs))]
		row := f.pickRow(t, c, tk)
		var tv Val
		if row != nil && r.Intn(5) != 0 {
			v = ValOf(row[colIndex(t, c.Name)], c.AppType)
			tv = ValOf(row[colIndex(t, tk.Name)], tk.AppType)
		} else {
			tv = GenColVal(r, tk)
			for tv.Null {
				tv = GenColVal(r, tk)
			}
		}
		fs.Searched = []Val{v}
		idc := t.Cols[0]
		note := *t.Col("note")
		sPar := func() string { return g.exprFor(v, true, &params, c) }
		tPar := func() string { return g.exprFor(tv, true, &params, tk) }
		sLit := func() string { return g.exprFor(v, false, &params, c) }
		tLit := func() string { return g.exprFor(tv, false, &params, tk) }
		idPar := func() string { return g.exprFor(Val{Type: fakepg.Int4, I: 0}, true, &params, idc) }
		var cond string
		switch name {
		case "mixed:search-and-token-placeholders":
			cond = c.Name + " = " + sPar() + " and " + tk.Name + " = " + tPar()
		case "mixed:token-placeholder-before-search-placeholder":
			cond = tk.Name + " = " + tPar() + " and " + c.Name + " = " + sPar()
		case "mixed:search-or-token-placeholders":
			cond = c.Name + " = " + sPar() + " or " + tk.Name + " = " + tPar()
		case "mixed:search-token-and-ordinary-placeholders":
			nv := Val{Type: fakepg.Text, S: "no such note"}
			switch r.Intn(3) {
			case 0:
				cond = "id > " + idPar() + " and " + c.Name + " = " + sPar() + " and " + tk.Name + " = " + tPar()
			case 1:
				cond = c.Name + " = " + sPar() + " and id > " + idPar() + " and " + tk.Name + " = " + tPar()
			default:
				cond = "(" + tk.Name + " = " + tPar() + " or note = " + g.exprFor(nv, true, &params, note) + ") and " + c.Name + " = " + sPar() + " and id > " + idPar()
			}
		case "mixed:search-placeholder-token-literal":
			cond = c.Name + " = " + sPar() + " and " + tk.Name + " = " + tLit()
		case "mixed:search-literal-token-placeholder":
			cond = c.Name + " = " + sLit() + " and " + tk.Name + " = " + tPar()
		case "mixed:same-placeholder-in-two-comparisons":
			p := sPar()
			cond = "(" + c.Name + " = " + p + " and id > " + idPar() + ") or (" + c.Name + " = " + p + " and id < 0)"
		default:
			return FormStep{}, false
		}
		useParam = true
		sql = fmt.Sprintf("select id from %s where %s order by id", tn, cond)
	}
	if fs.ValueBy == "" {
		fs.ValueBy = "literal"
		if len(params) > 0 {
			fs.ValueBy = "placeholder"
		}
	}
	g.finish(&fs.Step, sql, params, nres, true)
	fs.Tag = "form:" + name
	return fs, true
}
