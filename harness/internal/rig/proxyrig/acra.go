// Package proxyrig runs real in-process AcraServer instances between scripted clients and the fake databases.
package proxyrig

import (
	"context"
	"fmt"
	"net"
	"os"
	"sync"
	"syscall"

	acracensor "github.com/cossacklabs/acra/acra-censor"
	"github.com/cossacklabs/acra/cmd/acra-server/common"
	"github.com/cossacklabs/acra/crypto"
	"github.com/cossacklabs/acra/decryptor/base"
	"github.com/cossacklabs/acra/decryptor/mysql"
	"github.com/cossacklabs/acra/decryptor/postgresql"
	encryptorConfig "github.com/cossacklabs/acra/encryptor/base/config"
	"github.com/cossacklabs/acra/keystore"
	"github.com/cossacklabs/acra/network"
	"github.com/cossacklabs/acra/poison"
	"github.com/cossacklabs/acra/pseudonymization"
	tokenCommon "github.com/cossacklabs/acra/pseudonymization/common"
	"github.com/cossacklabs/acra/pseudonymization/storage"
	"github.com/cossacklabs/acra/sqlparser"
	"github.com/cossacklabs/acra/sqlparser/dialect"
	mysqlDialect "github.com/cossacklabs/acra/sqlparser/dialect/mysql"
	pgDialect "github.com/cossacklabs/acra/sqlparser/dialect/postgresql"
)

// Opts configures one AcraServer instance (one client identity).
type Opts struct {
	KS         keystore.ServerKeyStore
	ClientID   []byte
	DBPort     int
	SchemaYAML string
	CensorYAML string // "" = no firewall rules
	Poison     base.PoisonRecordCallbackStorage
	TokenStore tokenCommon.TokenStorage // shared between instances so that tokens are consistent; nil = fresh memory store
	MySQL      bool
}

// Acra is a running instance.
type Acra struct {
	Port    int
	cancel  context.CancelFunc
	server  *common.SServer
	mu      sync.Mutex
	Proxies []base.Proxy
	Censor  *acracensor.AcraCensor
}

type capFactory struct {
	inner base.ProxyFactory
	a     *Acra
}

func (f *capFactory) New(clientID []byte, s base.ClientSession) (base.Proxy, error) {
	p, err := f.inner.New(clientID, s)
	if err == nil {
		f.a.mu.Lock()
		f.a.Proxies = append(f.a.Proxies, p)
		f.a.mu.Unlock()
	}
	return p, err
}

var registryOnce sync.Once

// SetDialect sets Acra's process-global SQL dialect (PostgreSQL and MySQL phases must not overlap).
func SetDialect(useMySQL bool) {
	var d dialect.Dialect
	if useMySQL {
		d = mysqlDialect.NewMySQLDialect()
	} else {
		d = pgDialect.NewPostgreSQLDialect()
	}
	sqlparser.SetDefaultDialect(d)
}

// Start launches an AcraServer.
func Start(o Opts) (*Acra, error) {
	registryOnce.Do(func() {
		if err := crypto.InitRegistry(o.KS); err != nil {
			panic(err)
		}
	})
	schema, err := encryptorConfig.MapTableSchemaStoreFromConfig([]byte(o.SchemaYAML), o.MySQL)
	if err != nil {
		return nil, fmt.Errorf("schema: %w", err)
	}
	cfg, err := common.NewConfig()
	if err != nil {
		return nil, err
	}
	cfg.SetDBConnectionSettings("127.0.0.1", o.DBPort)
	if err := cfg.SetDatabaseType(o.MySQL, !o.MySQL); err != nil {
		return nil, err
	}
	SetDialect(o.MySQL)
	cfg.ConnectionWrapper = &network.RawConnectionWrapper{ClientID: o.ClientID}
	cfg.SetKeyStore(o.KS)
	cfg.SetTableSchema(schema)
	// The listening socket is created here and handed to AcraServer as a file descriptor (its graceful-restart path),
	// so the port is bound from the start and cannot be taken by anybody else in between.
	ln, err := net.Listen("tcp", "127.0.0.1:0")
	if err != nil {
		return nil, err
	}
	port := ln.Addr().(*net.TCPAddr).Port
	lf, err := ln.(*net.TCPListener).File()
	if err != nil {
		ln.Close()
		return nil, err
	}
	fd, err := syscall.Dup(int(lf.Fd()))
	lf.Close()
	ln.Close()
	if err != nil {
		return nil, err
	}
	cfg.SetAcraConnectionString(fmt.Sprintf("tcp://127.0.0.1:%d", port))
	censor := acracensor.NewAcraCensor()
	if o.CensorYAML != "" {
		if err := censor.LoadConfiguration([]byte(o.CensorYAML)); err != nil {
			return nil, fmt.Errorf("censor: %w", err)
		}
	}
	cb := o.Poison
	if cb == nil {
		cb = poison.NewCallbackStorage()
	}
	cfg.SetDetectPoisonRecords(cb.HasCallbacks())
	ts := o.TokenStore
	if ts == nil {
		ts, err = storage.NewMemoryTokenStorage()
		if err != nil {
			return nil, err
		}
	}
	tokenizer, err := pseudonymization.NewPseudoanonymizer(ts)
	if err != nil {
		return nil, err
	}
	setting := base.NewProxySetting(sqlparser.New(sqlparser.ModeDefault), schema, o.KS, nil, censor, cb)
	var factory base.ProxyFactory
	if o.MySQL {
		factory, err = mysql.NewProxyFactory(setting, o.KS, tokenizer)
	} else {
		factory, err = postgresql.NewProxyFactory(setting, o.KS, tokenizer)
	}
	if err != nil {
		return nil, err
	}
	a := &Acra{Port: port, Censor: censor}
	errCh := make(chan os.Signal, 2)
	server, err := common.NewEEAcraServerMainComponent(cfg, &capFactory{inner: factory, a: a}, errCh, errCh)
	if err != nil {
		return nil, err
	}
	a.server = server
	ctx, cancel := context.WithCancel(context.Background())
	a.cancel = cancel
	go server.StartFromFileDescriptor(ctx, uintptr(fd))
	return a, nil
}

// Stop shuts the instance down.
func (a *Acra) Stop() {
	a.cancel()
	a.server.StopListeners()
	a.server.Close()
}

// ProxyList returns the proxies created so far (one per client connection).
func (a *Acra) ProxyList() []base.Proxy {
	a.mu.Lock()
	defer a.mu.Unlock()
	return append([]base.Proxy{}, a.Proxies...)
}
