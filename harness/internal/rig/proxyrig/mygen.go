package proxyrig

import (
	"encoding/hex"
	"fmt"
	"strconv"
	"strings"

	"verif/harness/internal/gen"
	"verif/harness/internal/rig/fakepg"
)

// MyStep is one client statement in MySQL spelling, sent identically through Acra and to the reference database.
type MyStep struct {
	Kind       string // insert | update | delete | select
	Table      string
	SQL        string
	Args       []interface{} // bound values (binary protocol) - nil/int64/string/[]byte
	ArgCols    []string      // column each argument belongs to
	Proto      string        // text | prepared-oneshot | prepared-explicit
	Writes     []Written
	ResultCols []string // table column behind each result field
	Tag        string
	ParamDesc  []string
	Reexec     bool   // explicit prepared SELECT executed twice
	Other      string // prepared-interleaved: the statement prepared and executed in between
}

// ReturnsRows reports whether the statement produces a result set.
func (s MyStep) ReturnsRows() bool { return s.Kind == "select" }

// MyLiteral spells a value as a MySQL literal; style picks among equivalent spellings.
func MyLiteral(v Val, style int) string {
	if v.Null {
		return "NULL"
	}
	esc := func(b []byte, q byte) string {
		var o []byte
		o = append(o, q)
		for _, c := range b {
			switch c {
			case 0:
				o = append(o, '\\', '0')
			case '\n':
				o = append(o, '\\', 'n')
			case '\r':
				o = append(o, '\\', 'r')
			case '\\':
				o = append(o, '\\', '\\')
			case 0x1a:
				o = append(o, '\\', 'Z')
			case q:
				if style%2 == 0 {
					o = append(o, q, q)
				} else {
					o = append(o, '\\', q)
				}
			default:
				o = append(o, c)
			}
		}
		return string(append(o, q))
	}
	switch v.Type {
	case fakepg.Int4, fakepg.Int8:
		return strconv.FormatInt(v.I, 10)
	case fakepg.Text:
		if style%5 == 4 {
			return esc([]byte(v.S), '"')
		}
		return esc([]byte(v.S), '\'')
	default:
		switch style % 4 {
		case 1:
			if len(v.B) > 0 {
				return "0x" + strings.ToUpper(hex.EncodeToString(v.B))
			}
		case 2:
			return "_binary" + esc(v.B, '\'')
		case 3:
			printable := len(v.B) > 0
			for _, c := range v.B {
				if c < 0x20 || c > 0x7e {
					printable = false
				}
			}
			if printable {
				return esc(v.B, '\'')
			}
		}
		return "X'" + hex.EncodeToString(v.B) + "'"
	}
}

// MyArg renders the value as a database/sql argument.
func MyArg(v Val) interface{} {
	if v.Null {
		return nil
	}
	switch v.Type {
	case fakepg.Int4, fakepg.Int8:
		return v.I
	case fakepg.Text:
		return v.S
	default:
		return append([]byte{}, v.B...)
	}
}

// MySessGen generates the MySQL-flavoured statements of one session over a set of tables, tracking which ids exist.
type MySessGen struct {
	R      *gen.Rand
	Tables []TableSpec
	nextID map[string]int
	IDs    map[string][]int
	// TextOnly makes every statement literal-only (COM_QUERY).
	TextOnly bool
	// Quote makes identifiers backtick-quoted now and then.
	Quote bool
	// Interleave makes some explicitly prepared SELECTs be executed after another statement was prepared and executed.
	Interleave bool
	// Upserts adds INSERT ... ON DUPLICATE KEY UPDATE to Next().
	Upserts bool
	// ColVal, when set, draws the value written to a column (searchable-column pools of the C09 layer).
	ColVal func(t TableSpec, c ColSpec) Val
	pg     *SessGen // owner of the searchable-value pools (EnableSearchPools)
	lenSeq int
}

func (g *MySessGen) colVal(t TableSpec, c ColSpec) Val {
	if g.ColVal != nil {
		return g.ColVal(t, c)
	}
	return g.lenencClass(GenColVal(g.R, c), c)
}

// LenEncBoundaryLengths are the value lengths at which MySQL's length-encoded integer changes form (1 byte up to 250, 0xfb is
// the NULL marker, 0xfc + 2 bytes from 251, 0xfd + 3 bytes from 65536).
var LenEncBoundaryLengths = []int{250, 251, 252, 253, 65535, 65536}

// CipherOverhead is the number of bytes the stored form of a column adds to its plaintext with the gothemis stand-in
// (measured: AcraBlock 150, AcraStruct 201, searchable +33 for the blind index; masked columns: window + container of the rest).
// It aims plaintext lengths at ciphertexts of 250 / 251 / 252 bytes; the layers count what really arrived at the database.
func CipherOverhead(c ColSpec) int {
	ov := 150
	if c.Envelope == "acrastruct" {
		ov = 201
	}
	if c.Kind == "search" {
		ov += 33
	}
	return ov
}

// IsLenEncBoundary reports whether n is one of the boundary lengths.
func IsLenEncBoundary(n int) bool {
	for _, l := range LenEncBoundaryLengths {
		if n == l {
			return true
		}
	}
	return false
}

// lenencClass resizes every seventh text / bytea value (configured or not) to a length at a length-encoding boundary: the
// plaintext itself 250, 251, 252, 253, 65535, 65536 bytes long (what the client gets back after decryption, detokenization or
// untouched), or - for encrypted columns - a plaintext whose stored form is 250, 251 or 252 bytes long (what a re-packed bound
// parameter carries). The choice comes from a counter, not from the PRNG.
func (g *MySessGen) lenencClass(v Val, c ColSpec) Val {
	if v.Null || c.Name == "id" || (c.AppType != fakepg.Text && c.AppType != fakepg.Bytea) || (c.Kind == "token" && c.TokenType == "email") {
		return v
	}
	g.lenSeq++
	if g.lenSeq%7 != 0 {
		return v
	}
	class := (g.lenSeq / 7) % 9
	var want int
	if class < len(LenEncBoundaryLengths) {
		want = LenEncBoundaryLengths[class]
	} else {
		if c.Kind != "enc" && c.Kind != "search" && c.Kind != "mask" {
			want = LenEncBoundaryLengths[class%3] // no stored form to aim at: 250 / 251 / 252 again
		} else {
			want = 250 + (class - len(LenEncBoundaryLengths)) - CipherOverhead(c)
		}
	}
	if want < 10 {
		return v
	}
	// the resized value must stay unique (markers are what the leak oracles look for): values too short to carry the
	// generator's marker get one of their own in front
	if len(v.Bytes()) < 18 {
		mk := fmt.Sprintf("MKL%08x%07x", g.R.Uint32(), g.lenSeq)
		if v.Type == fakepg.Text {
			v.S = mk + v.S
		} else {
			v.B = append([]byte(mk), v.B...)
		}
	}
	b := v.Bytes()
	if v.Type == fakepg.Text {
		// cut on a rune boundary, fill with ASCII
		r := []rune(v.S)
		for len(string(r)) > want {
			r = r[:len(r)-1]
		}
		s := string(r)
		v.S = s + strings.Repeat("p", want-len(s))
		return v
	}
	out := make([]byte, want)
	n := copy(out, b)
	for i := n; i < want; i++ {
		out[i] = byte(i*7 + 3)
	}
	v.B = out
	return v
}

// NewMySessGen creates a generator.
func NewMySessGen(r *gen.Rand, tables []TableSpec) *MySessGen {
	return &MySessGen{R: r, Tables: tables, nextID: map[string]int{}, IDs: map[string][]int{}, Quote: true}
}

func (g *MySessGen) table() TableSpec { return g.Tables[g.R.Intn(len(g.Tables))] }

func (g *MySessGen) ident(s string) string {
	if g.Quote && g.R.Intn(6) == 0 {
		return "`" + s + "`"
	}
	return s
}

type myBound struct {
	v   Val
	col ColSpec
}

func (g *MySessGen) expr(v Val, useParam bool, params *[]myBound, col ColSpec) string {
	if useParam && !g.TextOnly {
		*params = append(*params, myBound{v, col})
		return "?"
	}
	return MyLiteral(v, g.R.Intn(20))
}

func (g *MySessGen) finish(st *MyStep, sql string, params []myBound) {
	st.SQL = sql
	for _, p := range params {
		st.Args = append(st.Args, MyArg(p.v))
		st.ArgCols = append(st.ArgCols, p.col.Name)
		b := p.v.Bytes()
		if len(b) > 48 {
			b = b[:48]
		}
		st.ParamDesc = append(st.ParamDesc, fmt.Sprintf("%s:%x", p.col.Name, b))
	}
	switch {
	case len(params) == 0 && (g.TextOnly || g.R.Intn(3) != 0):
		st.Proto = "text"
	case g.R.Intn(2) == 0:
		st.Proto = "prepared-oneshot"
	default:
		st.Proto = "prepared-explicit"
		st.Reexec = st.Kind == "select" && g.R.Intn(3) == 0
		if g.Interleave && st.Kind == "select" && g.R.Intn(2) == 0 {
			// another statement is prepared and executed between this statement's prepare and its execute
			st.Proto = "prepared-interleaved"
			st.Reexec = false
			st.Other = "select id from " + st.Table + " order by id"
			if st.Tag != "" {
				st.Tag += ","
			}
			st.Tag += "interleaved-prepare"
		}
	}
}

// Insert generates an INSERT (column list or schema order, single or multi-row).
func (g *MySessGen) Insert() MyStep {
	r := g.R
	t := g.table()
	st := MyStep{Kind: "insert", Table: t.Name}
	useParams := r.Intn(2) == 0
	schemaOrder := r.Intn(4) == 0
	var cols []ColSpec
	if schemaOrder {
		cols = t.Cols
	} else {
		cols = append(cols, t.Cols[0])
		for _, c := range t.Cols[1:] {
			if r.Intn(5) != 0 {
				cols = append(cols, c)
			}
		}
		r.Shuffle(len(cols), func(i, j int) { cols[i], cols[j] = cols[j], cols[i] })
	}
	nrows := 1
	if r.Intn(4) == 0 {
		nrows = 2 + r.Intn(2)
	}
	var params []myBound
	var rowsSQL []string
	for i := 0; i < nrows; i++ {
		g.nextID[t.Name]++
		id := g.nextID[t.Name]
		g.IDs[t.Name] = append(g.IDs[t.Name], id)
		var vals []string
		for _, c := range cols {
			var v Val
			if c.Name == "id" {
				v = Val{Type: fakepg.Int4, I: int64(id)}
			} else {
				v = g.colVal(t, c)
			}
			if c.Configured() && !v.Null {
				st.Writes = append(st.Writes, Written{t.Name, c.Name, v})
			}
			vals = append(vals, g.expr(v, useParams && r.Intn(4) != 0, &params, c))
		}
		rowsSQL = append(rowsSQL, "("+strings.Join(vals, ", ")+")")
	}
	sql := "insert into " + g.ident(t.Name)
	if !schemaOrder {
		var names []string
		for _, c := range cols {
			names = append(names, g.ident(c.Name))
		}
		sql += " (" + strings.Join(names, ", ") + ")"
	}
	sql += " values " + strings.Join(rowsSQL, ", ")
	if schemaOrder {
		st.Tag = "schema-order"
	}
	if nrows > 1 {
		st.Tag += ",multi-row"
	}
	g.finish(&st, sql, params)
	return st
}

func (g *MySessGen) whereID(t TableSpec, useParam bool, params *[]myBound, qualifier string) string {
	r := g.R
	ids := g.IDs[t.Name]
	idc := t.Cols[0]
	pick := func() Val {
		if r.Intn(8) == 0 {
			return Val{Type: fakepg.Int4, I: -int64(1 + r.Intn(100))} // matches nothing; a negative integer literal / parameter
		}
		if len(ids) == 0 || r.Intn(6) == 0 {
			return Val{Type: fakepg.Int4, I: int64(9000 + r.Intn(100))}
		}
		return Val{Type: fakepg.Int4, I: int64(ids[r.Intn(len(ids))])}
	}
	col := qualifier + "id"
	switch r.Intn(5) {
	case 0:
		return ""
	case 1:
		return " where " + col + " in (" + g.expr(pick(), useParam, params, idc) + ", " + g.expr(pick(), useParam, params, idc) + ")"
	case 2:
		return " where " + col + " <> " + g.expr(pick(), useParam, params, idc)
	default:
		return " where " + col + " = " + g.expr(pick(), useParam, params, idc)
	}
}

// Update generates UPDATE ... SET ... WHERE id ...
func (g *MySessGen) Update() MyStep {
	r := g.R
	t := g.table()
	st := MyStep{Kind: "update", Table: t.Name}
	useParams := r.Intn(2) == 0
	var params []myBound
	var sets []string
	for _, c := range t.Cols[1:] {
		if r.Intn(3) != 0 {
			continue
		}
		v := g.colVal(t, c)
		if c.Configured() && !v.Null {
			st.Writes = append(st.Writes, Written{t.Name, c.Name, v})
		}
		sets = append(sets, g.ident(c.Name)+" = "+g.expr(v, useParams && r.Intn(4) != 0, &params, c))
	}
	if len(sets) == 0 {
		c := t.Cols[1]
		v := GenColVal(r, c)
		if c.Configured() && !v.Null {
			st.Writes = append(st.Writes, Written{t.Name, c.Name, v})
		}
		sets = append(sets, c.Name+" = "+g.expr(v, false, &params, c))
	}
	sql := "update " + g.ident(t.Name) + " set " + strings.Join(sets, ", ") + g.whereID(t, useParams, &params, "")
	g.finish(&st, sql, params)
	return st
}

// Delete generates a DELETE.
func (g *MySessGen) Delete() MyStep {
	t := g.table()
	st := MyStep{Kind: "delete", Table: t.Name}
	var params []myBound
	w := g.whereID(t, g.R.Intn(2) == 0, &params, "")
	if w == "" {
		w = " where id = 0"
	}
	g.finish(&st, "delete from "+g.ident(t.Name)+w, params)
	return st
}

// Select generates a SELECT over one table (star / list / aliases / qualified names; WHERE id =, IN, <>; ORDER BY; LIMIT).
func (g *MySessGen) Select() MyStep {
	r := g.R
	t := g.table()
	st := MyStep{Kind: "select", Table: t.Name}
	var params []myBound
	alias, qual := "", ""
	if r.Intn(3) == 0 {
		alias = []string{" as a1", " a1"}[r.Intn(2)]
		qual = "a1."
		st.Tag = "table-alias"
	} else if r.Intn(4) == 0 {
		qual = t.Name + "."
	}
	var list string
	var names []string
	switch r.Intn(4) {
	case 0:
		list = "*"
	case 1:
		if qual != "" {
			list = qual + "*"
		} else {
			list = "*"
		}
	default:
		var items []string
		for _, c := range t.Cols {
			if r.Intn(3) == 0 {
				continue
			}
			names = append(names, c.Name)
			it := qual + g.ident(c.Name)
			if r.Intn(5) == 0 {
				it += " as x_" + c.Name
				if !strings.Contains(st.Tag, "column-alias") {
					st.Tag += ",column-alias"
				}
			}
			items = append(items, it)
		}
		if len(items) == 0 {
			items = []string{qual + "id"}
			names = []string{"id"}
		}
		r.Shuffle(len(items), func(i, j int) { items[i], items[j] = items[j], items[i]; names[i], names[j] = names[j], names[i] })
		list = strings.Join(items, ", ")
	}
	if names == nil {
		for _, c := range t.Cols {
			names = append(names, c.Name)
		}
	}
	st.ResultCols = names
	sql := "select " + list + " from " + g.ident(t.Name) + alias + g.whereID(t, r.Intn(2) == 0, &params, qual)
	if r.Intn(3) == 0 {
		sql += " order by " + qual + "id"
		if r.Intn(2) == 0 {
			sql += " desc"
		}
	}
	if r.Intn(6) == 0 {
		sql += fmt.Sprintf(" limit %d", 1+r.Intn(3))
	}
	st.Tag = strings.TrimPrefix(st.Tag, ",")
	g.finish(&st, sql, params)
	return st
}

// Next draws the next step of a session.
func (g *MySessGen) Next() MyStep {
	total := 0
	for _, ids := range g.IDs {
		total += len(ids)
	}
	x := g.R.Intn(100)
	if g.Upserts && total >= 2 && g.R.Intn(10) == 0 {
		return g.Upsert()
	}
	switch {
	case total < 2 || x < 45:
		return g.Insert()
	case x < 60:
		return g.Update()
	case x < 67:
		return g.Delete()
	default:
		return g.Select()
	}
}

// Upsert generates INSERT ... VALUES ... ON DUPLICATE KEY UPDATE (the id column is the key): keys that exist (the assignments
// run) and new ones (the row is inserted), single and multi-row, assignments to unprotected columns (literal, the column itself,
// id = id + 0, VALUES(col)) and to protected columns (literal / placeholder, VALUES(col)), alone and mixed.
func (g *MySessGen) Upsert() MyStep {
	r := g.R
	t := g.table()
	st := MyStep{Kind: "insert", Table: t.Name}
	useParams := r.Intn(2) == 0
	schemaOrder := r.Intn(4) == 0
	var cols []ColSpec
	if schemaOrder {
		cols = t.Cols
	} else {
		cols = append(cols, t.Cols[0])
		for _, c := range t.Cols[1:] {
			if r.Intn(4) != 0 {
				cols = append(cols, c)
			}
		}
		r.Shuffle(len(cols), func(i, j int) { cols[i], cols[j] = cols[j], cols[i] })
	}
	inList := map[string]bool{}
	for _, c := range cols {
		inList[c.Name] = true
	}
	nrows := 1
	if r.Intn(4) == 0 {
		nrows = 2
	}
	var params []myBound
	var rowsSQL []string
	used := map[int]bool{}
	keyKinds := ""
	for i := 0; i < nrows; i++ {
		id := 0
		ids := g.IDs[t.Name]
		if len(ids) > 0 && r.Intn(3) != 0 {
			id = ids[r.Intn(len(ids))]
		}
		if id == 0 || used[id] {
			g.nextID[t.Name]++
			id = g.nextID[t.Name]
			for used[id] {
				g.nextID[t.Name]++
				id = g.nextID[t.Name]
			}
			g.IDs[t.Name] = append(g.IDs[t.Name], id)
			keyKinds += ",new-key"
		} else {
			keyKinds += ",existing-key"
		}
		used[id] = true
		var vals []string
		for _, c := range cols {
			var v Val
			if c.Name == "id" {
				v = Val{Type: fakepg.Int4, I: int64(id)}
			} else {
				v = g.colVal(t, c)
			}
			if c.Configured() && !v.Null {
				st.Writes = append(st.Writes, Written{t.Name, c.Name, v})
			}
			vals = append(vals, g.expr(v, useParams && r.Intn(3) == 0, &params, c))
		}
		rowsSQL = append(rowsSQL, "("+strings.Join(vals, ", ")+")")
	}
	sql := "insert into " + g.ident(t.Name)
	if !schemaOrder {
		var names []string
		for _, c := range cols {
			names = append(names, g.ident(c.Name))
		}
		sql += " (" + strings.Join(names, ", ") + ")"
	}
	sql += " values " + strings.Join(rowsSQL, ", ") + " on duplicate key update "
	var unprot, prot []ColSpec
	for _, c := range t.Cols[1:] {
		if c.Configured() {
			prot = append(prot, c)
		} else {
			unprot = append(unprot, c)
		}
	}
	var assigns []string
	assigned := map[string]bool{}
	protLiteral := false
	n := 1 + r.Intn(3)
	for k := 0; k < n; k++ {
		switch x := r.Intn(10); {
		case x < 2 && !assigned["id"]:
			assigned["id"] = true
			assigns = append(assigns, "id = id + 0")
		case x < 7 && len(unprot) > 0:
			c := unprot[r.Intn(len(unprot))]
			if assigned[c.Name] {
				continue
			}
			assigned[c.Name] = true
			switch y := r.Intn(3); {
			case y == 0:
				assigns = append(assigns, c.Name+" = "+c.Name)
			case y == 1 && inList[c.Name]:
				assigns = append(assigns, c.Name+" = VALUES("+c.Name+")")
			default:
				assigns = append(assigns, g.ident(c.Name)+" = "+g.expr(g.colVal(t, c), useParams && r.Intn(2) == 0, &params, c))
			}
		case len(prot) > 0:
			c := prot[r.Intn(len(prot))]
			if assigned[c.Name] {
				continue
			}
			assigned[c.Name] = true
			if r.Intn(3) == 0 && inList[c.Name] {
				assigns = append(assigns, c.Name+" = VALUES("+c.Name+")")
				continue
			}
			v := g.colVal(t, c)
			if !v.Null {
				st.Writes = append(st.Writes, Written{t.Name, c.Name, v})
			}
			protLiteral = true
			assigns = append(assigns, g.ident(c.Name)+" = "+g.expr(v, useParams && r.Intn(2) == 0, &params, c))
		}
	}
	if len(assigns) == 0 {
		assigns = append(assigns, "id = id")
	}
	sql += strings.Join(assigns, ", ")
	if protLiteral {
		st.Tag = "upsert:assigns-protected-value"
	} else {
		st.Tag = "upsert:assigns-only-unprotected-or-non-literal"
	}
	st.Tag += keyKinds
	g.finish(&st, sql, params)
	return st
}

// RunMyStep sends one step over a client and returns the result(s): one per execution (a re-executed prepared SELECT yields two).
func RunMyStep(c *MyClient, st MyStep) []*MyResult {
	run := func(q func(string, ...interface{}) *MyResult, e func(string, ...interface{}) *MyResult) *MyResult {
		if st.ReturnsRows() {
			return q(st.SQL, st.Args...)
		}
		return e(st.SQL, st.Args...)
	}
	switch st.Proto {
	case "prepared-interleaved":
		ps, res := c.Prepare(st.SQL)
		if ps == nil {
			return []*MyResult{res}
		}
		defer ps.Close()
		ps2, res2 := c.Prepare(st.Other)
		if ps2 == nil {
			return []*MyResult{res2}
		}
		defer ps2.Close()
		r2 := ps2.Query()
		return []*MyResult{r2, ps.Query(st.Args...)}
	case "prepared-explicit":
		ps, res := c.Prepare(st.SQL)
		if ps == nil {
			return []*MyResult{res}
		}
		defer ps.Close()
		var out []*MyResult
		n := 1
		if st.Reexec {
			n = 2
		}
		for i := 0; i < n; i++ {
			if st.ReturnsRows() {
				out = append(out, ps.Query(st.Args...))
			} else {
				out = append(out, ps.Exec(st.Args...))
			}
		}
		return out
	case "prepared-oneshot":
		if len(st.Args) == 0 {
			// database/sql sends a statement without arguments as COM_QUERY; force the binary protocol through an explicit prepare
			ps, res := c.Prepare(st.SQL)
			if ps == nil {
				return []*MyResult{res}
			}
			defer ps.Close()
			if st.ReturnsRows() {
				return []*MyResult{ps.Query()}
			}
			return []*MyResult{ps.Exec()}
		}
		return []*MyResult{run(c.Query, c.Exec)}
	default:
		return []*MyResult{run(c.Query, c.Exec)}
	}
}
