package proxyrig

import (
	"net"
	"syscall"
	"unsafe"
)

// Observation points of the scripted client for monitors that must decide, at some instant chosen by ANOTHER goroutine, how
// much of the server's reply has already reached this client (C15: "the callbacks run before the value is delivered").

// InLen returns the number of bytes the client has taken off its socket so far (recorded stream length).
func (r *MyRec) InLen() int { r.mu.Lock(); defer r.mu.Unlock(); return len(r.in) }

// Unread returns the number of bytes that have arrived at the client's socket and were not yet read by the client
// (FIONREAD on the receive queue); -1 when the socket cannot be asked. It takes no lock a concurrent Read holds.
func (c *MyRaw) Unread() int {
	rc, ok := c.conn.(*myRecConn)
	if !ok {
		return -1
	}
	tc, ok := rc.Conn.(*net.TCPConn)
	if !ok {
		return -1
	}
	sc, err := tc.SyscallConn()
	if err != nil {
		return -1
	}
	n := int32(0)
	var errno syscall.Errno
	if err := sc.Control(func(fd uintptr) {
		_, _, errno = syscall.Syscall(syscall.SYS_IOCTL, fd, uintptr(syscall.TIOCINQ), uintptr(unsafe.Pointer(&n)))
	}); err != nil || errno != 0 {
		return -1
	}
	return int(n)
}

// ReceivedBounds returns a lower and an upper bound of the number of bytes of the server's byte stream that had reached this
// client (read by it, or waiting in its socket) at some instant during the call. The lower bound never overestimates: bytes
// the client consumed between the two looks are counted once.
func (c *MyRaw) ReceivedBounds() (lower, upper int, ok bool) {
	l1 := c.InLen()
	q := c.Unread()
	l2 := c.InLen()
	if q < 0 {
		return l1, l2, false
	}
	return l1 + q, l2 + q, true
}
