package proxyrig

import (
	"os"
	"testing"

	"github.com/cossacklabs/acra/keystore"

	"verif/harness/internal/rig/fakepg"
	"verif/harness/internal/rig/ksrig"
)

func TestTmpProbe(t *testing.T) {
	os.Setenv("VERIF_SCRATCH_DIR", t.TempDir())
	dir := ksrig.ScratchDir("myprobe")
	ks, _ := ksrig.V1(dir, ksrig.RandBytes(32), keystore.InfiniteCacheSize)
	ksrig.GenClient(ks, []byte("client_owner"))
	tables := []TableSpec{{Name: "t", Cols: []ColSpec{{Name: "id", AppType: fakepg.Int4, StoreType: fakepg.Int4}, {Name: "s", Kind: "search", Envelope: "acrablock", AppType: fakepg.Bytea, StoreType: fakepg.Bytea}, {Name: "s2", Kind: "search", Envelope: "acrastruct", AppType: fakepg.Bytea, StoreType: fakepg.Bytea}}}}
	w, err := NewMyWorld(WorldOpts{Tables: tables, KS: ks, Clients: []string{"client_owner"}})
	if err != nil {
		t.Fatal(err)
	}
	defer w.Close()
	defer SetDialect(false)
	ac, _ := DialMy(w.Acras["client_owner"].Port, 0)
	defer ac.Close()
	t.Log(ac.Exec("insert into t (id, s, s2) values (1, X'dc0c1a996c9d2ecc85', 'abcdefghij')").Err)
	t.Log(ac.Exec("insert into t (id, s, s2) values (?, ?, ?)", int64(2), []byte("second value"), []byte("abcdefghij")).Err)
	for _, q := range []string{"select id from t where s = X'dc0c1a996c9d2ecc85'", "select id from t where s = 'second value'", "select id from t where s2 = 'abcdefghij'"} {
		r := ac.Query(q)
		t.Logf("%s -> %v %v", q, r.Err, r.Rows)
	}
	r := ac.Query("select id from t where s = ?", []byte("second value"))
	t.Logf("param -> %v %v", r.Err, r.Rows)
	r = ac.Query("select id from t where s = ? and s2 = ?", []byte("second value"), []byte("abcdefghij"))
	t.Logf("2 params -> %v %v", r.Err, r.Rows)
	for _, m := range w.Store.Log() {
		t.Logf("db got %s %.200q", m.Name, m.SQL)
	}
	for _, row := range w.Store.DB.Snapshot("t") {
		t.Logf("row id=%v s[:8]=%x s2[:8]=%x", row[0], row[1].([]byte)[:8], row[2].([]byte)[:8])
	}
	t.Log(w.Store.Unsupported())
}
