package proxyrig

import (
	"fmt"
	"strings"

	"verif/harness/internal/rig/fakepg"
)

// MySQL-flavoured statements whose WHERE / ON uses searchable columns (C09). Values come from the same small per-column
// pools as the PostgreSQL generator (duplicates, prefixes of each other, empty, 1/33/34/200-byte values): an embedded SessGen
// owns the pools and the record of values written.

// EnableSearchPools makes values written to searchable columns come from pools and records them for later searches.
func (g *MySessGen) EnableSearchPools() {
	g.pg = NewSessGen(g.R, g.Tables)
	g.pg.UsePool = true
	g.ColVal = func(t TableSpec, c ColSpec) Val {
		v := g.pg.colVal(t, c)
		if c.Kind == "search" && !v.Null {
			k := t.Name + "." + c.Name
			g.pg.SearchVals[k] = append(g.pg.SearchVals[k], v)
		}
		return v
	}
}

// mySearchCond builds a condition over a searchable column; tag describes its form.
func (g *MySessGen) mySearchCond(t TableSpec, c ColSpec, qual string, useParam bool, params *[]myBound) (cond, tag string) {
	r := g.R
	v := g.pg.searchVal(t, c)
	col := qual + c.Name
	e := g.expr(v, useParam, params, c)
	tag = "search:"
	switch r.Intn(7) {
	case 0:
		cond = e + " = " + col
		tag += "value-on-the-left"
	case 1, 2:
		cond = col + " <> " + e
		tag += "ne"
	default:
		cond = col + " = " + e
		tag += "eq"
	}
	if len(v.Bytes()) == 0 {
		tag += ",empty-value"
	}
	tag += spellingTag(e)
	idc := t.Cols[0]
	sc := searchCols(t)
	switch x := r.Intn(8); {
	case x == 0:
		cond = "(" + cond + " and " + qual + "id > " + g.expr(Val{Type: fakepg.Int4, I: int64(r.Intn(4))}, useParam && r.Intn(2) == 0, params, idc) + ")"
		tag += ",and-id"
	case x == 1:
		cond = "(" + cond + " or " + qual + "id = " + g.expr(Val{Type: fakepg.Int4, I: int64(1 + r.Intn(6))}, useParam && r.Intn(2) == 0, params, idc) + ")"
		tag += ",or-id"
	case x <= 4 && len(sc) > 1:
		// a second searchable column in the same statement (with placeholders: two searchable bound values in one execute)
		var c2 ColSpec
		for {
			c2 = sc[r.Intn(len(sc))]
			if c2.Name != c.Name {
				break
			}
		}
		v2 := g.pg.searchVal(t, c2)
		op := " and "
		if r.Intn(3) == 0 {
			op = " or "
		}
		e2 := g.expr(v2, useParam, params, c2)
		cond = cond + op + qual + c2.Name + " = " + e2
		tag += ",second-searchable-column"
		if useParam && !g.TextOnly {
			tag += ",both-values-bound-as-placeholders"
		}
		if sp := spellingTag(e2); sp != "" && !strings.Contains(tag, sp) {
			tag += sp
		}
		if len(v2.Bytes()) == 0 && !strings.Contains(tag, "empty-value") {
			tag += ",empty-value"
		}
	}
	return cond, tag
}

// spellingTag classes the spelling of a searched literal (part of violation signatures).
func spellingTag(e string) string {
	switch {
	case strings.HasPrefix(e, "_binary"):
		return ",literal-with-binary-introducer"
	case strings.HasPrefix(e, "0x"):
		return ",hex-number-literal"
	case strings.HasPrefix(e, "X'"):
		return ",hex-string-literal"
	}
	return ""
}

// SearchSelect generates a SELECT whose WHERE uses a searchable column (tables without one fall back to Select).
func (g *MySessGen) SearchSelect() MyStep {
	r := g.R
	t := g.table()
	sc := searchCols(t)
	if len(sc) == 0 {
		return g.Select()
	}
	st := MyStep{Kind: "select", Table: t.Name}
	var params []myBound
	useParam := r.Intn(2) == 0
	alias, qual := "", ""
	if r.Intn(3) == 0 {
		alias, qual = " as s1", "s1."
	}
	var names, items []string
	for _, c := range t.Cols {
		if c.Name == "id" || r.Intn(2) == 0 {
			names = append(names, c.Name)
			items = append(items, qual+c.Name)
		}
	}
	cond, tag := g.mySearchCond(t, sc[r.Intn(len(sc))], qual, useParam, &params)
	st.Tag = tag
	st.ResultCols = names
	g.finish(&st, "select "+strings.Join(items, ", ")+" from "+t.Name+alias+" where "+cond+" order by "+qual+"id", params)
	return st
}

// SearchJoin generates a two-table join with a condition on a searchable column, sometimes joined ON searchable columns.
func (g *MySessGen) SearchJoin() MyStep {
	r := g.R
	if len(g.Tables) < 2 {
		return g.SearchSelect()
	}
	t1, t2 := g.Tables[0], g.Tables[1]
	if r.Intn(2) == 0 {
		t1, t2 = t2, t1
	}
	sc := searchCols(t1)
	if len(sc) == 0 {
		return g.SearchSelect()
	}
	st := MyStep{Kind: "select", Table: t1.Name}
	var params []myBound
	c := sc[r.Intn(len(sc))]
	on := "j1.id = j2.id"
	joinTag := ",join-on-id"
	if sc2 := searchCols(t2); len(sc2) > 0 && r.Intn(3) == 0 {
		c2 := sc2[r.Intn(len(sc2))]
		if c2.AppType == c.AppType {
			on = "j1." + c.Name + " = j2." + c2.Name
			joinTag = ",join-on-searchable-columns"
		}
	}
	cond, tag := g.mySearchCond(t1, c, "j1.", r.Intn(2) == 0, &params)
	st.Tag = tag + joinTag
	st.ResultCols = []string{"id", "id", c.Name}
	g.finish(&st, "select j1.id, j2.id, j1."+c.Name+" from "+t1.Name+" as j1 join "+t2.Name+" as j2 on "+on+" where "+cond+" order by j1.id, j2.id", params)
	return st
}

// SearchWrite generates UPDATE / DELETE ... WHERE <searchable> = v.
func (g *MySessGen) SearchWrite() MyStep {
	r := g.R
	t := g.table()
	sc := searchCols(t)
	if len(sc) == 0 {
		return g.Update()
	}
	var params []myBound
	useParam := r.Intn(2) == 0
	if r.Intn(3) == 0 {
		st := MyStep{Kind: "delete", Table: t.Name}
		cond, tag := g.mySearchCond(t, sc[r.Intn(len(sc))], "", useParam, &params)
		st.Tag = tag
		g.finish(&st, "delete from "+t.Name+" where "+cond, params)
		return st
	}
	st := MyStep{Kind: "update", Table: t.Name}
	c := t.Cols[1+r.Intn(len(t.Cols)-1)]
	v := g.colVal(t, c)
	if c.Configured() && !v.Null {
		st.Writes = append(st.Writes, Written{t.Name, c.Name, v})
	}
	set := c.Name + " = " + g.expr(v, useParam, &params, c)
	cond, tag := g.mySearchCond(t, sc[r.Intn(len(sc))], "", useParam, &params)
	st.Tag = tag
	g.finish(&st, fmt.Sprintf("update %s set %s where %s", t.Name, set, cond), params)
	return st
}
