package proxyrig

import (
	"fmt"
	"strings"

	"github.com/jackc/pgx/v5/pgproto3"

	"verif/harness/internal/gen"
	"verif/harness/internal/rig/fakepg"
)

// SessGen generates the statements of one session over a set of tables, tracking which ids exist.
type SessGen struct {
	R      *gen.Rand
	Tables []TableSpec
	nextID map[string]int
	IDs    map[string][]int
	stmtN  int
	// Searchable enables equality conditions on searchable columns in SELECT/UPDATE/DELETE (C09); SearchVals holds values written per table/column.
	SearchVals map[string][]Val
	// UsePool makes values written to searchable columns come from a small per-column pool (duplicates, prefixes, boundary lengths).
	UsePool bool
	// SimpleOnly makes every statement literal-only and sent with the simple protocol.
	SimpleOnly bool
	pools      map[string][]Val
	lastTag    string
	mixedSeq   int
}

// poolVal draws a value for a searchable column from its pool.
func (g *SessGen) poolVal(t TableSpec, c ColSpec) Val {
	if g.pools == nil {
		g.pools = map[string][]Val{}
	}
	// one pool per application type, shared by all searchable columns: joins ON two searchable columns and conditions
	// comparing them then have matching rows
	k := "pool/" + c.AppType.String()
	if g.pools[k] == nil {
		r := g.R
		var pool []Val
		mk := func(b []byte) Val {
			if c.AppType == fakepg.Text {
				// keep text values valid UTF-8 and free of backslashes
				s := make([]byte, len(b))
				for i, x := range b {
					s[i] = 'a' + x%26
				}
				return Val{Type: fakepg.Text, S: string(s)}
			}
			return Val{Type: fakepg.Bytea, B: b}
		}
		base := gen.Bytes(r, 12+r.Intn(20))
		pool = append(pool, mk(base), mk(base[:len(base)-3]), mk(append(append([]byte{}, base...), 0x41, 0x42)), mk(gen.Bytes(r, 1)), mk(gen.Bytes(r, 33)), mk(gen.Bytes(r, 34)), mk(gen.Bytes(r, 200)), mk([]byte{}))
		for i := 0; i < 3; i++ {
			pool = append(pool, mk(gen.Bytes(r, 5+r.Intn(40))))
		}
		g.pools[k] = pool
	}
	p := g.pools[k]
	return p[g.R.Intn(len(p))]
}

// searchVal picks a value to search for: mostly one that was written, sometimes absent / a prefix / empty.
func (g *SessGen) searchVal(t TableSpec, c ColSpec) Val {
	r := g.R
	written := g.SearchVals[t.Name+"."+c.Name]
	switch {
	case len(written) > 0 && r.Intn(10) < 6:
		return written[r.Intn(len(written))]
	case g.UsePool && r.Intn(3) != 0:
		return g.poolVal(t, c)
	default:
		v := GenVal(r, c.AppType, false)
		return v
	}
}

func searchCols(t TableSpec) []ColSpec {
	var out []ColSpec
	for _, c := range t.Cols {
		if c.Kind == "search" {
			out = append(out, c)
		}
	}
	return out
}

// searchCond builds a condition over a searchable column.
func (g *SessGen) searchCond(t TableSpec, c ColSpec, qual string, useParam bool, params *[]boundVal) string {
	r := g.R
	v := g.searchVal(t, c)
	col := qual + c.Name
	e := g.exprFor(v, useParam, params, c)
	var cond string
	tag := "search:"
	switch r.Intn(6) {
	case 0:
		cond = e + " = " + col
		tag += "value-on-the-left"
	case 1:
		cond = col + " <> " + e
		tag += "ne"
	default:
		cond = col + " = " + e
		tag += "eq"
	}
	if len(v.Bytes()) == 0 {
		tag += ",empty-value"
	}
	g.lastTag = tag
	idc := t.Cols[0]
	switch r.Intn(6) {
	case 0:
		cond = "(" + cond + " and " + qual + "id > " + g.exprFor(Val{Type: fakepg.Int4, I: int64(r.Intn(4))}, useParam && r.Intn(2) == 0, params, idc) + ")"
	case 1:
		cond = "(" + cond + " or " + qual + "id = " + g.exprFor(Val{Type: fakepg.Int4, I: int64(1 + r.Intn(6))}, useParam && r.Intn(2) == 0, params, idc) + ")"
	case 2:
		if sc := searchCols(t); len(sc) > 1 {
			c2 := sc[r.Intn(len(sc))]
			v2 := g.searchVal(t, c2)
			if len(v2.Bytes()) == 0 && !strings.Contains(g.lastTag, "empty-value") {
				g.lastTag += ",empty-value"
			}
			cond = cond + " and " + qual + c2.Name + " = " + g.exprFor(v2, useParam, params, c2)
		}
	}
	return cond
}

// SearchSelect generates a SELECT whose WHERE uses a searchable column (tables without one fall back to Select).
func (g *SessGen) SearchSelect() Step {
	r := g.R
	t := g.table()
	sc := searchCols(t)
	if len(sc) == 0 {
		return g.Select()
	}
	st := Step{Kind: "select", Table: t.Name}
	var params []boundVal
	useParam := r.Intn(2) == 0
	alias, qual := "", ""
	if r.Intn(3) == 0 {
		alias, qual = " as s1", "s1."
	}
	var names []string
	var items []string
	for _, c := range t.Cols {
		if c.Name == "id" || r.Intn(2) == 0 {
			names = append(names, c.Name)
			items = append(items, qual+c.Name)
		}
	}
	sql := "select " + strings.Join(items, ", ") + " from " + t.Name + alias + " where " + g.searchCond(t, sc[r.Intn(len(sc))], qual, useParam, &params) + " order by " + qual + "id"
	st.ResultCols = names
	g.finish(&st, sql, params, len(items), true)
	return st
}

// SearchJoin generates a two-table join with a condition on a searchable column (needs two tables).
func (g *SessGen) SearchJoin() Step {
	r := g.R
	if len(g.Tables) < 2 {
		return g.SearchSelect()
	}
	t1, t2 := g.Tables[0], g.Tables[1]
	if r.Intn(2) == 0 {
		t1, t2 = t2, t1
	}
	sc := searchCols(t1)
	if len(sc) == 0 {
		return g.SearchSelect()
	}
	st := Step{Kind: "select", Table: t1.Name}
	var params []boundVal
	c := sc[r.Intn(len(sc))]
	on := "j1.id = j2.id"
	if sc2 := searchCols(t2); len(sc2) > 0 && r.Intn(3) == 0 {
		c2 := sc2[r.Intn(len(sc2))]
		if c2.AppType == c.AppType {
			on = "j1." + c.Name + " = j2." + c2.Name
		}
	}
	sql := "select j1.id, j2.id, j1." + c.Name + " from " + t1.Name + " as j1 join " + t2.Name + " as j2 on " + on + " where " + g.searchCond(t1, c, "j1.", r.Intn(2) == 0, &params) + " order by j1.id, j2.id"
	st.ResultCols = []string{"id", "id", c.Name}
	g.finish(&st, sql, params, 3, true)
	return st
}

// SearchWrite generates UPDATE/DELETE ... WHERE <searchable> = v.
func (g *SessGen) SearchWrite() Step {
	r := g.R
	t := g.table()
	sc := searchCols(t)
	if len(sc) == 0 {
		return g.Update()
	}
	var params []boundVal
	useParam := r.Intn(2) == 0
	if r.Intn(3) == 0 {
		st := Step{Kind: "delete", Table: t.Name}
		g.finish(&st, "delete from "+t.Name+" where "+g.searchCond(t, sc[r.Intn(len(sc))], "", useParam, &params), params, 0, false)
		return st
	}
	st := Step{Kind: "update", Table: t.Name}
	c := t.Cols[1+r.Intn(len(t.Cols)-1)]
	v := g.colVal(t, c)
	if c.Configured() && !v.Null {
		st.Writes = append(st.Writes, Written{t.Name, c.Name, v})
	}
	if c.Kind == "search" && !v.Null {
		k := t.Name + "." + c.Name
		g.SearchVals[k] = append(g.SearchVals[k], v)
	}
	set := c.Name + " = " + g.exprFor(v, useParam, &params, c)
	g.finish(&st, "update "+t.Name+" set "+set+" where "+g.searchCond(t, sc[r.Intn(len(sc))], "", useParam, &params), params, 0, false)
	return st
}

// colVal draws a value for a column, honouring UsePool for searchable columns.
func (g *SessGen) colVal(t TableSpec, c ColSpec) Val {
	if g.UsePool && c.Kind == "search" && g.R.Intn(8) != 0 {
		return g.poolVal(t, c)
	}
	return GenColVal(g.R, c)
}

// NewSessGen creates a generator.
func NewSessGen(r *gen.Rand, tables []TableSpec) *SessGen {
	return &SessGen{R: r, Tables: tables, nextID: map[string]int{}, IDs: map[string][]int{}, SearchVals: map[string][]Val{}}
}

func (g *SessGen) table() TableSpec { return g.Tables[g.R.Intn(len(g.Tables))] }

type boundVal struct {
	v   Val
	col ColSpec
}

// exprFor spells a value either as a literal or as a new parameter.
func (g *SessGen) exprFor(v Val, useParam bool, params *[]boundVal, col ColSpec) string {
	if useParam && !g.SimpleOnly {
		*params = append(*params, boundVal{v, col})
		e := fmt.Sprintf("$%d", len(*params))
		return e
	}
	// explicit casts only where the application type is also the physical column type (a ::text cast on a column that is
	// physically bytea is rejected by PostgreSQL itself, with or without Acra)
	return v.Literal(g.R.Intn(4), col.AppType == col.StoreType)
}

func (g *SessGen) finish(st *Step, sql string, params []boundVal, nResultCols int, returnsRows bool) {
	st.SQL = sql
	st.Tag = g.lastTag
	g.lastTag = ""
	for _, p := range params {
		b := p.v.Bytes()
		if len(b) > 48 {
			b = b[:48]
		}
		st.ParamDesc = append(st.ParamDesc, fmt.Sprintf("%s:%x", p.col.Name, b))
	}
	r := g.R
	if len(params) == 0 && (g.SimpleOnly || r.Intn(2) == 0) {
		st.Proto = "simple"
		st.ParamFmt = "none"
		st.ResFmt = "text"
		st.Groups = [][]pgproto3.FrontendMessage{{&pgproto3.Query{String: sql}}}
		return
	}
	// parameter formats
	var pf []int16
	pvals := make([][]byte, len(params))
	switch r.Intn(3) {
	case 0:
		st.ParamFmt = "text"
		if r.Intn(2) == 0 && len(params) > 0 {
			pf = []int16{0}
		}
		for i, p := range params {
			pvals[i] = p.v.Param(false)
		}
	case 1:
		st.ParamFmt = "binary"
		if len(params) > 0 {
			pf = []int16{1}
		}
		for i, p := range params {
			pvals[i] = p.v.Param(true)
		}
	default:
		st.ParamFmt = "mixed"
		for i, p := range params {
			b := r.Intn(2) == 0
			if b {
				pf = append(pf, 1)
			} else {
				pf = append(pf, 0)
			}
			pvals[i] = p.v.Param(b)
		}
		// every second mixed Bind with three or more parameters gets the pattern "first and last alike, something else in
		// between" (what drivers produce that send integers in binary and strings in text); chosen by a counter so that the
		// PRNG stream is what it was
		if len(params) >= 3 {
			g.mixedSeq++
			if g.mixedSeq%2 == 0 {
				last := len(pf) - 1
				pf[last] = pf[0]
				mid := 1 + g.mixedSeq/2%last
				if mid >= last {
					mid = 1
				}
				pf[mid] = 1 - pf[0]
				for i, p := range params {
					pvals[i] = p.v.Param(pf[i] == 1)
				}
				st.FormatPattern = "first-and-last-alike-middle-different"
			}
		}
	}
	if len(params) == 0 {
		st.ParamFmt = "none"
		pf = nil
	}
	var rf []int16
	st.ResFmt = "text"
	if returnsRows {
		switch r.Intn(3) {
		case 1:
			rf = []int16{1}
			st.ResFmt = "binary"
		case 2:
			if nResultCols > 0 {
				for i := 0; i < nResultCols; i++ {
					rf = append(rf, int16(r.Intn(2)))
				}
				st.ResFmt = "mixed"
			}
		}
	}
	maxRows := uint32(0)
	if returnsRows && r.Intn(8) == 0 {
		maxRows = uint32(1 + r.Intn(2))
	}
	g.stmtN++
	name := ""
	if r.Intn(3) == 0 {
		name = fmt.Sprintf("st%d", g.stmtN)
	}
	portal := ""
	if r.Intn(4) == 0 {
		portal = fmt.Sprintf("po%d", g.stmtN)
	}
	parse := &pgproto3.Parse{Name: name, Query: sql}
	bind := &pgproto3.Bind{PreparedStatement: name, DestinationPortal: portal, ParameterFormatCodes: pf, Parameters: pvals, ResultFormatCodes: rf}
	exec := &pgproto3.Execute{Portal: portal, MaxRows: maxRows}
	st.Detail = fmt.Sprintf("stmt=%q portal=%q paramFormats=%v resultFormats=%v maxRows=%d nparams=%d", name, portal, pf, rf, maxRows, len(params))
	if st.FormatPattern != "" {
		st.Detail += " formatPattern=" + st.FormatPattern
	}
	switch r.Intn(3) {
	case 0:
		st.Proto = "extended"
		st.Groups = [][]pgproto3.FrontendMessage{{parse, bind, &pgproto3.Describe{ObjectType: 'P', Name: portal}, exec, &pgproto3.Sync{}}}
	case 1:
		st.Proto = "extended-describe-stmt"
		st.Groups = [][]pgproto3.FrontendMessage{
			{parse, &pgproto3.Describe{ObjectType: 'S', Name: name}, &pgproto3.Sync{}},
			{bind, exec, &pgproto3.Sync{}},
		}
	default:
		st.Proto = "extended-no-describe"
		st.Groups = [][]pgproto3.FrontendMessage{{parse, bind, exec, &pgproto3.Sync{}}}
	}
	if name != "" && r.Intn(2) == 0 {
		st.Groups = append(st.Groups, []pgproto3.FrontendMessage{&pgproto3.Close{ObjectType: 'S', Name: name}, &pgproto3.Sync{}})
	}
}

// Insert generates an INSERT.
func (g *SessGen) Insert() Step {
	r := g.R
	t := g.table()
	st := Step{Kind: "insert", Table: t.Name}
	useParams := r.Intn(2) == 0
	schemaOrder := r.Intn(4) == 0
	var cols []ColSpec
	if schemaOrder {
		cols = t.Cols
	} else {
		cols = append(cols, t.Cols[0])
		for _, c := range t.Cols[1:] {
			if r.Intn(5) != 0 {
				cols = append(cols, c)
			}
		}
		r.Shuffle(len(cols), func(i, j int) { cols[i], cols[j] = cols[j], cols[i] })
	}
	nrows := 1
	if r.Intn(4) == 0 {
		nrows = 2 + r.Intn(2)
	}
	var params []boundVal
	var rowsSQL []string
	for i := 0; i < nrows; i++ {
		g.nextID[t.Name]++
		id := g.nextID[t.Name]
		g.IDs[t.Name] = append(g.IDs[t.Name], id)
		var vals []string
		for _, c := range cols {
			var v Val
			if c.Name == "id" {
				v = Val{Type: fakepg.Int4, I: int64(id)}
			} else {
				v = g.colVal(t, c)
			}
			if c.Configured() && !v.Null {
				st.Writes = append(st.Writes, Written{t.Name, c.Name, v})
			}
			if c.Kind == "search" && !v.Null {
				k := t.Name + "." + c.Name
				g.SearchVals[k] = append(g.SearchVals[k], v)
			}
			vals = append(vals, g.exprFor(v, useParams && r.Intn(4) != 0, &params, c))
		}
		rowsSQL = append(rowsSQL, "("+strings.Join(vals, ", ")+")")
	}
	sql := "insert into " + t.Name
	if !schemaOrder {
		var names []string
		for _, c := range cols {
			names = append(names, c.Name)
		}
		sql += " (" + strings.Join(names, ", ") + ")"
	}
	sql += " values " + strings.Join(rowsSQL, ", ")
	nret := 0
	if r.Intn(5) == 0 {
		var rc []string
		for _, c := range t.Cols {
			if r.Intn(2) == 0 {
				rc = append(rc, c.Name)
			}
		}
		if len(rc) == 0 {
			rc = []string{"id"}
		}
		nret = len(rc)
		st.ResultCols = rc
		sql += " returning " + strings.Join(rc, ", ")
	}
	g.finish(&st, sql, params, nret, nret > 0)
	return st
}

func (g *SessGen) whereID(t TableSpec, useParam bool, params *[]boundVal, qualifier string) string {
	r := g.R
	ids := g.IDs[t.Name]
	idc := t.Cols[0]
	pick := func() Val {
		if len(ids) == 0 || r.Intn(6) == 0 {
			return Val{Type: fakepg.Int4, I: int64(9000 + r.Intn(100))}
		}
		return Val{Type: fakepg.Int4, I: int64(ids[r.Intn(len(ids))])}
	}
	col := qualifier + "id"
	switch r.Intn(5) {
	case 0:
		return ""
	case 1:
		return " where " + col + " in (" + g.exprFor(pick(), useParam, params, idc) + ", " + g.exprFor(pick(), useParam, params, idc) + ")"
	case 2:
		return " where " + col + " <> " + g.exprFor(pick(), useParam, params, idc)
	default:
		return " where " + col + " = " + g.exprFor(pick(), useParam, params, idc)
	}
}

// Update generates an UPDATE ... SET ... WHERE id ...
func (g *SessGen) Update() Step {
	r := g.R
	t := g.table()
	st := Step{Kind: "update", Table: t.Name}
	useParams := r.Intn(2) == 0
	var params []boundVal
	var sets []string
	for _, c := range t.Cols[1:] {
		if r.Intn(3) != 0 {
			continue
		}
		v := g.colVal(t, c)
		if c.Configured() && !v.Null {
			st.Writes = append(st.Writes, Written{t.Name, c.Name, v})
		}
		if c.Kind == "search" && !v.Null {
			k := t.Name + "." + c.Name
			g.SearchVals[k] = append(g.SearchVals[k], v)
		}
		sets = append(sets, c.Name+" = "+g.exprFor(v, useParams && r.Intn(4) != 0, &params, c))
	}
	if len(sets) == 0 {
		c := t.Cols[1]
		v := GenColVal(r, c)
		if c.Configured() && !v.Null {
			st.Writes = append(st.Writes, Written{t.Name, c.Name, v})
		}
		sets = append(sets, c.Name+" = "+g.exprFor(v, false, &params, c))
	}
	sql := "update " + t.Name + " set " + strings.Join(sets, ", ") + g.whereID(t, useParams, &params, "")
	g.finish(&st, sql, params, 0, false)
	return st
}

// Delete generates a DELETE.
func (g *SessGen) Delete() Step {
	t := g.table()
	st := Step{Kind: "delete", Table: t.Name}
	var params []boundVal
	w := g.whereID(t, g.R.Intn(2) == 0, &params, "")
	if w == "" {
		w = " where id = 0"
	}
	g.finish(&st, "delete from "+t.Name+w, params, 0, false)
	return st
}

// Select generates a SELECT over one table.
func (g *SessGen) Select() Step {
	r := g.R
	t := g.table()
	st := Step{Kind: "select", Table: t.Name}
	var params []boundVal
	alias, qual := "", ""
	if r.Intn(3) == 0 {
		alias = " as a1"
		qual = "a1."
	} else if r.Intn(4) == 0 {
		qual = t.Name + "."
	}
	var list string
	n := len(t.Cols)
	var names []string
	switch r.Intn(4) {
	case 0:
		list = "*"
	case 1:
		if qual != "" {
			list = qual + "*"
		} else {
			list = "*"
		}
	default:
		var items []string
		for _, c := range t.Cols {
			if r.Intn(3) == 0 {
				continue
			}
			names = append(names, c.Name)
			it := qual + c.Name
			if r.Intn(5) == 0 {
				it += " as x_" + c.Name
			}
			items = append(items, it)
		}
		if len(items) == 0 {
			items = []string{qual + "id"}
			names = []string{"id"}
		}
		r.Shuffle(len(items), func(i, j int) { items[i], items[j] = items[j], items[i]; names[i], names[j] = names[j], names[i] })
		n = len(items)
		list = strings.Join(items, ", ")
	}
	if names == nil {
		for _, c := range t.Cols {
			names = append(names, c.Name)
		}
	}
	st.ResultCols = names
	sql := "select " + list + " from " + t.Name + alias + g.whereID(t, r.Intn(2) == 0, &params, qual)
	if r.Intn(3) == 0 {
		sql += " order by " + qual + "id"
		if r.Intn(2) == 0 {
			sql += " desc"
		}
	}
	if r.Intn(6) == 0 {
		sql += fmt.Sprintf(" limit %d", 1+r.Intn(3))
	}
	g.finish(&st, sql, params, n, true)
	return st
}

// AppEncryptedInsert generates a single-row INSERT in which the value for one configured bytea column arrives already
// encrypted by the application (enc returns the container for a plaintext: AcraWriter / AcraTranslator output). Acra gets
// the container, the reference database the plaintext. ok is false when no table has a suitable column.
func (g *SessGen) AppEncryptedInsert(enc func(c ColSpec, plain []byte) []byte, want func(ColSpec) bool) (Step, bool) {
	r := g.R
	type tc struct {
		t TableSpec
		c ColSpec
	}
	var cands []tc
	for _, t := range g.Tables {
		for _, c := range t.Cols[1:] {
			if c.Configured() && c.AppType == fakepg.Bytea && c.StoreType == fakepg.Bytea && c.ClientID == "" && want(c) {
				cands = append(cands, tc{t, c})
			}
		}
	}
	if len(cands) == 0 {
		return Step{}, false
	}
	x := cands[r.Intn(len(cands))]
	t, c := x.t, x.c
	var v Val
	for i := 0; i < 8; i++ {
		v = g.colVal(t, c)
		if !v.Null && len(v.B) > 0 {
			break
		}
	}
	if v.Null || len(v.B) == 0 {
		return Step{}, false
	}
	container := enc(c, append([]byte{}, v.B...))
	if container == nil {
		return Step{}, false
	}
	cv := Val{Type: fakepg.Bytea, B: container}
	g.nextID[t.Name]++
	id := g.nextID[t.Name]
	g.IDs[t.Name] = append(g.IDs[t.Name], id)
	idv := Val{Type: fakepg.Int4, I: int64(id)}
	st := Step{Kind: "insert", Table: t.Name, Tag: "app-encrypted-value"}
	st.Writes = append(st.Writes, Written{t.Name, c.Name, v})
	if c.Kind == "search" {
		k := t.Name + "." + c.Name
		g.SearchVals[k] = append(g.SearchVals[k], v)
	}
	head := "insert into " + t.Name + " (id, " + c.Name + ") values ("
	pb := v.B
	if len(pb) > 48 {
		pb = pb[:48]
	}
	st.ParamDesc = []string{fmt.Sprintf("%s(app-encrypted plaintext):%x", c.Name, pb)}
	st.ResFmt = "text"
	if g.SimpleOnly || r.Intn(2) == 0 {
		st.Proto, st.ParamFmt = "simple", "none"
		st.SQL = head + idv.Literal(0, false) + ", " + cv.Literal(0, false) + ")"
		st.Groups = [][]pgproto3.FrontendMessage{{&pgproto3.Query{String: st.SQL}}}
		st.RefGroups = [][]pgproto3.FrontendMessage{{&pgproto3.Query{String: head + idv.Literal(0, false) + ", " + v.Literal(0, false) + ")"}}}
		return st, true
	}
	st.Proto = "extended-no-describe"
	st.SQL = head + "$1, $2)"
	bin := r.Intn(2) == 0
	st.ParamFmt = "text"
	pf := []int16{0, 0}
	if bin {
		st.ParamFmt = "mixed"
		pf = []int16{0, 1}
	}
	mk := func(val Val) [][]pgproto3.FrontendMessage {
		return [][]pgproto3.FrontendMessage{{
			&pgproto3.Parse{Query: st.SQL},
			&pgproto3.Bind{ParameterFormatCodes: pf, Parameters: [][]byte{idv.Param(false), val.Param(bin)}},
			&pgproto3.Execute{}, &pgproto3.Sync{},
		}}
	}
	st.Detail = fmt.Sprintf("paramFormats=%v", pf)
	st.Groups, st.RefGroups = mk(cv), mk(v)
	return st, true
}

// Next draws the next step of a session.
func (g *SessGen) Next() Step {
	total := 0
	for _, ids := range g.IDs {
		total += len(ids)
	}
	x := g.R.Intn(100)
	switch {
	case total < 2 || x < 45:
		return g.Insert()
	case x < 60:
		return g.Update()
	case x < 67:
		return g.Delete()
	default:
		return g.Select()
	}
}
