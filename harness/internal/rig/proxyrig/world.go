package proxyrig

import (
	"fmt"
	"strings"

	"github.com/cossacklabs/acra/decryptor/base"
	"github.com/cossacklabs/acra/keystore"
	tokenCommon "github.com/cossacklabs/acra/pseudonymization/common"
	"github.com/cossacklabs/acra/pseudonymization/storage"

	"verif/harness/internal/rig/fakepg"
	"verif/harness/internal/rig/ksrig"
)

// ColSpec describes one column: what the application sees and how Acra is configured for it.
type ColSpec struct {
	Name      string
	AppType   fakepg.ColType // type the application works with (reference database schema)
	StoreType fakepg.ColType // type of the real column behind Acra
	Kind      string         // "" (not configured) | enc | search | mask | token
	Envelope  string         // acrastruct | acrablock
	DataType  string         // "" | str | bytes | int32 | int64
	TypeID    uint32         // when non-zero the type is configured as data_type_db_identifier (PostgreSQL OID) instead of data_type
	OnFail    string         // "" | ciphertext | default_value | error
	Default   *string
	MaskPat   string
	MaskLen   int
	MaskSide  string // left | right
	TokenType string // int32 | int64 | str | bytes | email
	Consist   bool
	ClientID  string // per-column client id ("" = session client)
}

// Configured reports whether Acra transforms the column.
func (c ColSpec) Configured() bool { return c.Kind != "" }

// TableSpec is one table.
type TableSpec struct {
	Name string
	Cols []ColSpec
}

// Col finds a column.
func (t TableSpec) Col(name string) *ColSpec {
	for i := range t.Cols {
		if t.Cols[i].Name == name {
			return &t.Cols[i]
		}
	}
	return nil
}

// YAML renders the encryptor configuration for a set of tables.
func YAML(tables []TableSpec) string {
	var b strings.Builder
	b.WriteString("schemas:\n")
	for _, t := range tables {
		fmt.Fprintf(&b, "  - table: %s\n    columns:\n", t.Name)
		for _, c := range t.Cols {
			fmt.Fprintf(&b, "      - %s\n", c.Name)
		}
		b.WriteString("    encrypted:\n")
		for _, c := range t.Cols {
			if !c.Configured() {
				continue
			}
			fmt.Fprintf(&b, "      - column: %s\n", c.Name)
			if c.ClientID != "" {
				fmt.Fprintf(&b, "        client_id: %q\n", c.ClientID)
			}
			if c.Envelope != "" && c.Kind != "token" {
				fmt.Fprintf(&b, "        crypto_envelope: %s\n", c.Envelope)
			}
			if c.TypeID != 0 && c.Kind != "token" {
				fmt.Fprintf(&b, "        data_type_db_identifier: %d\n", c.TypeID)
			} else if c.DataType != "" && c.Kind != "token" {
				fmt.Fprintf(&b, "        data_type: %s\n", c.DataType)
			}
			if c.OnFail != "" {
				fmt.Fprintf(&b, "        response_on_fail: %s\n", c.OnFail)
			}
			if c.Default != nil {
				fmt.Fprintf(&b, "        default_data_value: %q\n", *c.Default)
			}
			switch c.Kind {
			case "search":
				b.WriteString("        searchable: true\n")
			case "mask":
				fmt.Fprintf(&b, "        masking: %q\n        plaintext_length: %d\n        plaintext_side: %s\n", c.MaskPat, c.MaskLen, c.MaskSide)
			case "token":
				fmt.Fprintf(&b, "        token_type: %s\n        consistent_tokenization: %v\n", c.TokenType, c.Consist)
			}
		}
	}
	return b.String()
}

// World is one keystore, one real (storage-view) fake database behind one AcraServer per client identity,
// and one reference (application-view) fake database the same scripts are replayed against directly.
type World struct {
	Tables  []TableSpec
	KS      ksrig.FullKeyStore
	Store   *fakepg.Server // behind Acra
	Ref     *fakepg.Server // reference, no Acra
	Acras   map[string]*Acra
	Tokens  tokenCommon.TokenStorage
	Schema  string
	stopped bool
}

// WorldOpts configures NewWorld.
type WorldOpts struct {
	Tables     []TableSpec
	KS         ksrig.FullKeyStore
	Clients    []string // identities to start an AcraServer for
	CensorYAML string
	Poison     base.PoisonRecordCallbackStorage
	// StoreByteaOutput is the bytea_output setting of the database behind Acra ("" = hex, "escape"); the reference keeps hex.
	StoreByteaOutput string
}

// NewWorld builds databases and AcraServers.
func NewWorld(o WorldOpts) (*World, error) {
	w := &World{Tables: o.Tables, KS: o.KS, Acras: map[string]*Acra{}}
	sdb, rdb := fakepg.NewDB(), fakepg.NewDB()
	for _, t := range o.Tables {
		var sc, rc []fakepg.Column
		for _, c := range t.Cols {
			sc = append(sc, fakepg.Column{Name: c.Name, Type: c.StoreType})
			rc = append(rc, fakepg.Column{Name: c.Name, Type: c.AppType})
		}
		sdb.CreateTable(t.Name, sc)
		rdb.CreateTable(t.Name, rc)
	}
	var err error
	if w.Store, err = fakepg.NewServer(sdb); err != nil {
		return nil, err
	}
	if o.StoreByteaOutput != "" {
		w.Store.SetByteaOutput(o.StoreByteaOutput)
	}
	if w.Ref, err = fakepg.NewServer(rdb); err != nil {
		return nil, err
	}
	ts, err := storage.NewMemoryTokenStorage()
	if err != nil {
		return nil, err
	}
	enc, err := storage.NewSCellEncryptor(o.KS)
	if err != nil {
		return nil, err
	}
	w.Tokens = storage.WrapStorageWithEncryption(ts, enc)
	w.Schema = YAML(o.Tables)
	for _, id := range o.Clients {
		a, err := Start(Opts{KS: o.KS, ClientID: []byte(id), DBPort: w.Store.Port(), SchemaYAML: w.Schema, CensorYAML: o.CensorYAML, Poison: o.Poison, TokenStore: w.Tokens})
		if err != nil {
			w.Close()
			return nil, fmt.Errorf("start acra for %s: %w\n%s", id, err, w.Schema)
		}
		w.Acras[id] = a
	}
	return w, nil
}

// Close stops everything.
func (w *World) Close() {
	if w.stopped {
		return
	}
	w.stopped = true
	for _, a := range w.Acras {
		a.Stop()
	}
	if w.Store != nil {
		w.Store.Close()
	}
	if w.Ref != nil {
		w.Ref.Close()
	}
}

var _ keystore.ServerKeyStore = ksrig.FullKeyStore(nil)
