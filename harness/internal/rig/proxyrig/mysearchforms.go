package proxyrig

import (
	"encoding/hex"
	"fmt"
	"strings"

	"verif/harness/internal/rig/fakepg"
)

// C09 "forms" workload in MySQL spelling (see searchforms.go for the idea and the meaning of Demand): one comparison of a
// searchable column with a value in every position of a statement, with every operator of MySQL's equality family, bound
// together with placeholders of other kinds, and string literals whose text spells a literal of another kind ('0x6162').

// MyFormStep is one statement of the MySQL forms workload.
type MyFormStep struct {
	MyStep
	Form     string
	Demand   bool
	ValueBy  string // literal | placeholder
	Searched []Val
}

// MyFormGen generates MyFormSteps on top of a MySessGen with search pools enabled.
type MyFormGen struct {
	G    *MySessGen
	Rows func(table string) [][]fakepg.Value
	seq  int
}

var myFormNames = []string{
	"nested:in-subselect-same-table",
	"op:null-safe-equal",
	"mixed:search-and-token-placeholders",
	"nested:comparison-equals-boolean",
	"op:in-list",
	"nested:scalar-subselect",
	"op:not-equal-bang",
	"nested:not",
	"mixed:token-placeholder-before-search-placeholder",
	"nested:boolean-test",
	"op:like",
	"nested:in-subselect-other-table",
	"op:not-null-safe-equal",
	"nested:case-when-condition",
	"op:nullif-is-null",
	"mixed:search-token-and-ordinary-placeholders",
	"nested:exists-correlated",
	"nested:cte",
	"op:not-in-list",
	"nested:derived-table",
	"op:not-like",
	"mixed:search-placeholder-token-literal",
	"nested:join-on-and",
	"nested:union-all",
	"mixed:search-literal-token-placeholder",
	"nested:exists-other-table",
	"nested:case-when-in-select-list",
	"op:in-list-single",
	"mixed:search-or-token-placeholders",
}

// MyFormNames returns the catalogue of MySQL form classes.
func MyFormNames() []string { return append([]string{}, myFormNames...) }

func (f *MyFormGen) pickRow(t TableSpec, cols ...ColSpec) []fakepg.Value {
	return (&FormGen{G: f.G.pg, Rows: f.Rows}).pickRow(t, cols...)
}

func (f *MyFormGen) searched(t TableSpec, c ColSpec) Val {
	return (&FormGen{G: f.G.pg, Rows: f.Rows}).searched(t, c)
}

// Next generates the next form of the catalogue.
func (f *MyFormGen) Next() (MyFormStep, bool) {
	for tries := 0; tries < len(myFormNames); tries++ {
		name := myFormNames[f.seq%len(myFormNames)]
		f.seq++
		if fs, ok := f.Form(name); ok {
			return fs, true
		}
	}
	return MyFormStep{}, false
}

// Form generates one statement of the named class.
func (f *MyFormGen) Form(name string) (MyFormStep, bool) {
	g := f.G
	r := g.R
	var cands []TableSpec
	for _, t := range g.Tables {
		if len(searchCols(t)) == 0 {
			continue
		}
		if strings.HasPrefix(name, "mixed:") && len(ConsistentTokenCols(t)) == 0 {
			continue
		}
		cands = append(cands, t)
	}
	if len(cands) == 0 {
		return MyFormStep{}, false
	}
	t := cands[r.Intn(len(cands))]
	var other TableSpec
	for _, x := range g.Tables {
		if x.Name != t.Name {
			other = x
		}
	}
	sc := searchCols(t)
	c := sc[r.Intn(len(sc))]
	fs := MyFormStep{Form: name, Demand: strings.HasPrefix(name, "nested:") || strings.HasPrefix(name, "mixed:") || name == "op:not-equal-bang"}
	fs.MyStep = MyStep{Kind: "select", Table: t.Name, ResultCols: []string{"id"}}
	var params []myBound
	useParam := r.Intn(2) == 0
	v := f.searched(t, c)
	fs.Searched = []Val{v}
	second := func() Val {
		v2 := f.searched(t, c)
		fs.Searched = append(fs.Searched, v2)
		return v2
	}
	lit := func(v Val) string {
		// the spellings the searchable filter is known not to support (introducer) are a finding of their own: not used here
		for i := 0; i < 20; i++ {
			if s := MyLiteral(v, r.Intn(20)); !strings.HasPrefix(s, "_binary") {
				return s
			}
		}
		return MyLiteral(v, 0)
	}
	ex := func(v Val, par bool, c ColSpec) string {
		if par {
			params = append(params, myBound{v, c})
			return "?"
		}
		return lit(v)
	}
	e := func() string { return ex(v, useParam, c) }
	eq := func(col string) string {
		if r.Intn(4) == 0 {
			return col + " <> " + e()
		}
		return col + " = " + e()
	}
	tn := t.Name
	sql := ""
	switch name {
	case "nested:in-subselect-same-table":
		sql = fmt.Sprintf("select id from %s where id in (select id from %s where %s) order by id", tn, tn, eq(c.Name))
	case "nested:in-subselect-other-table":
		if other.Name == "" {
			return MyFormStep{}, false
		}
		fs.Table = other.Name
		sql = fmt.Sprintf("select id from %s where id in (select id from %s where %s) order by id", other.Name, tn, eq(c.Name))
	case "nested:scalar-subselect":
		sql = fmt.Sprintf("select id from %s where id = (select id from %s where %s order by id limit 1) order by id", tn, tn, eq(c.Name))
	case "nested:exists-correlated":
		sql = fmt.Sprintf("select id from %s where exists (select 1 from %s as x where %s and x.id = %s.id) order by id", tn, tn, eq("x."+c.Name), tn)
	case "nested:exists-other-table":
		if other.Name == "" {
			return MyFormStep{}, false
		}
		fs.Table = other.Name
		sql = fmt.Sprintf("select id from %s where exists (select 1 from %s where %s) order by id", other.Name, tn, eq(c.Name))
	case "nested:comparison-equals-boolean":
		switch r.Intn(3) {
		case 0:
			sql = fmt.Sprintf("select id from %s where (%s) = true order by id", tn, eq(c.Name))
		case 1:
			sql = fmt.Sprintf("select id from %s where (%s) <> false order by id", tn, eq(c.Name))
		default:
			sql = fmt.Sprintf("select id from %s where (%s) = (id > 0) order by id", tn, eq(c.Name))
		}
	case "nested:not":
		sql = fmt.Sprintf("select id from %s where not (%s) order by id", tn, eq(c.Name))
	case "nested:boolean-test":
		test := []string{"is true", "is not true", "is false", "is not false"}[r.Intn(4)]
		sql = fmt.Sprintf("select id from %s where (%s) %s order by id", tn, eq(c.Name), test)
	case "nested:case-when-condition":
		if r.Intn(2) == 0 {
			sql = fmt.Sprintf("select id from %s where case when %s then true else false end order by id", tn, eq(c.Name))
		} else {
			sql = fmt.Sprintf("select id from %s where case when %s then id > 0 else id < 0 end order by id", tn, eq(c.Name))
		}
	case "nested:case-when-in-select-list":
		fs.Demand = false // selects no rows
		sql = fmt.Sprintf("select id, case when %s then 1 else 0 end from %s order by id", eq(c.Name), tn)
		fs.ResultCols = []string{"id", "-"}
	case "nested:cte":
		sql = fmt.Sprintf("with q as (select id from %s where %s) select id from q order by id", tn, eq(c.Name))
	case "nested:derived-table":
		sql = fmt.Sprintf("select q.id from (select id, %s from %s) as q where %s order by q.id", c.Name, tn, eq("q."+c.Name))
	case "nested:join-on-and":
		if other.Name == "" {
			return MyFormStep{}, false
		}
		sql = fmt.Sprintf("select j1.id, j2.id from %s as j1 join %s as j2 on j1.id = j2.id and %s order by j1.id", tn, other.Name, eq("j1."+c.Name))
		fs.ResultCols = []string{"id", "id"}
	case "nested:union-all":
		sql = fmt.Sprintf("select id from %s where %s union all select id from %s where id < 0", tn, eq(c.Name), tn)
	case "op:not-equal-bang":
		sql = fmt.Sprintf("select id from %s where %s != %s order by id", tn, c.Name, e())
	case "op:null-safe-equal":
		sql = fmt.Sprintf("select id from %s where %s <=> %s order by id", tn, c.Name, e())
	case "op:not-null-safe-equal":
		sql = fmt.Sprintf("select id from %s where not (%s <=> %s) order by id", tn, c.Name, e())
	case "op:in-list-single":
		sql = fmt.Sprintf("select id from %s where %s in (%s) order by id", tn, c.Name, e())
	case "op:in-list":
		sql = fmt.Sprintf("select id from %s where %s in (%s, %s) order by id", tn, c.Name, e(), ex(second(), useParam, c))
	case "op:not-in-list":
		sql = fmt.Sprintf("select id from %s where %s not in (%s, %s) order by id", tn, c.Name, e(), ex(second(), useParam, c))
	case "op:nullif-is-null":
		if r.Intn(2) == 0 {
			sql = fmt.Sprintf("select id from %s where nullif(%s, %s) is null order by id", tn, c.Name, e())
		} else {
			sql = fmt.Sprintf("select id from %s where nullif(%s, %s) is not null order by id", tn, c.Name, e())
		}
	case "op:like":
		sql = fmt.Sprintf("select id from %s where %s like %s order by id", tn, c.Name, e())
	case "op:not-like":
		sql = fmt.Sprintf("select id from %s where %s not like %s order by id", tn, c.Name, e())
	default:
		if !strings.HasPrefix(name, "mixed:") {
			return MyFormStep{}, false
		}
		tcs := ConsistentTokenCols(t)
		tk := tcs[r.Intn(len(tcs))]
		row := f.pickRow(t, c, tk)
		var tv Val
		if row != nil && r.Intn(5) != 0 {
			v = ValOf(row[colIndex(t, c.Name)], c.AppType)
			tv = ValOf(row[colIndex(t, tk.Name)], tk.AppType)
		} else {
			tv = GenColVal(r, tk)
			for tv.Null {
				tv = GenColVal(r, tk)
			}
		}
		fs.Searched = []Val{v}
		idc := t.Cols[0]
		note := *t.Col("note")
		sPar := func() string { return ex(v, true, c) }
		tPar := func() string { return ex(tv, true, tk) }
		idPar := func() string { return ex(Val{Type: fakepg.Int4, I: 0}, true, idc) }
		var cond string
		switch name {
		case "mixed:search-and-token-placeholders":
			cond = c.Name + " = " + sPar() + " and " + tk.Name + " = " + tPar()
		case "mixed:token-placeholder-before-search-placeholder":
			cond = tk.Name + " = " + tPar() + " and " + c.Name + " = " + sPar()
		case "mixed:search-or-token-placeholders":
			cond = c.Name + " = " + sPar() + " or " + tk.Name + " = " + tPar()
		case "mixed:search-token-and-ordinary-placeholders":
			nv := Val{Type: fakepg.Text, S: "no such note"}
			switch r.Intn(3) {
			case 0:
				cond = "id > " + idPar() + " and " + c.Name + " = " + sPar() + " and " + tk.Name + " = " + tPar()
			case 1:
				cond = c.Name + " = " + sPar() + " and id > " + idPar() + " and " + tk.Name + " = " + tPar()
			default:
				cond = "(" + tk.Name + " = " + tPar() + " or note = " + ex(nv, true, note) + ") and " + c.Name + " = " + sPar() + " and id > " + idPar()
			}
		case "mixed:search-placeholder-token-literal":
			cond = c.Name + " = " + sPar() + " and " + tk.Name + " = " + ex(tv, false, tk)
		case "mixed:search-literal-token-placeholder":
			cond = c.Name + " = " + ex(v, false, c) + " and " + tk.Name + " = " + tPar()
		default:
			return MyFormStep{}, false
		}
		sql = fmt.Sprintf("select id from %s where %s order by id", tn, cond)
	}
	fs.ValueBy = "literal"
	if len(params) > 0 {
		fs.ValueBy = "placeholder"
	}
	fs.Tag = "form:" + name
	g.finish(&fs.MyStep, sql, params)
	return fs, true
}

// LookalikeInsert writes, into a searchable column, a value whose text spells a MySQL hex-number literal (0x<hex of v>;
// now and then with an odd number of digits or a non-hex digit), and the value v itself, so that both plaintexts have rows.
// The second result generates statements that search for the look-alike value as a STRING ('0x6162', "0x6162", or bound).
func (f *MyFormGen) LookalikeInsert() (MyStep, func() MyFormStep, bool) {
	g := f.G
	r := g.R
	var cands []TableSpec
	for _, t := range g.Tables {
		if len(searchCols(t)) > 0 {
			cands = append(cands, t)
		}
	}
	if len(cands) == 0 {
		return MyStep{}, nil, false
	}
	t := cands[r.Intn(len(cands))]
	sc := searchCols(t)
	c := sc[r.Intn(len(sc))]
	base := make([]byte, 1+r.Intn(6))
	for i := range base {
		base[i] = 'a' + byte(r.Intn(26))
	}
	lookText := "0x" + hex.EncodeToString(base)
	class := "hex-number"
	switch r.Intn(6) {
	case 0:
		lookText = lookText[:len(lookText)-1]
		class = "hex-number-with-odd-digits"
	case 1:
		lookText += "zz"
		class = "0x-followed-by-non-hex"
	}
	mk := func(b []byte) Val {
		if c.AppType == fakepg.Text {
			return Val{Type: fakepg.Text, S: string(b)}
		}
		return Val{Type: fakepg.Bytea, B: b}
	}
	look := mk([]byte(lookText))
	st := MyStep{Kind: "insert", Table: t.Name}
	var rows []string
	var params []myBound
	for _, v := range []Val{mk(base), look} {
		g.nextID[t.Name]++
		id := g.nextID[t.Name]
		g.IDs[t.Name] = append(g.IDs[t.Name], id)
		st.Writes = append(st.Writes, Written{t.Name, c.Name, v})
		k := t.Name + "." + c.Name
		g.pg.SearchVals[k] = append(g.pg.SearchVals[k], v)
		params = append(params, myBound{v, c})
		rows = append(rows, fmt.Sprintf("(%d, ?)", id))
	}
	st.Tag = "lookalike-insert"
	g.finish(&st, fmt.Sprintf("insert into %s (id, %s) values %s", t.Name, c.Name, strings.Join(rows, ", ")), params)
	search := func() MyFormStep {
		fs := MyFormStep{Form: "value:string-spells-a-" + class + "-literal", Demand: true, Searched: []Val{look}}
		fs.MyStep = MyStep{Kind: "select", Table: t.Name, ResultCols: []string{"id"}}
		var ps []myBound
		e := ""
		if r.Intn(3) == 0 {
			ps = append(ps, myBound{look, c})
			e = "?"
			fs.ValueBy = "placeholder"
		} else {
			q := "'"
			if r.Intn(4) == 0 {
				q = `"`
			}
			e = q + lookText + q
			fs.ValueBy = "literal"
		}
		op := "="
		if r.Intn(4) == 0 {
			op = "<>"
		}
		fs.Tag = "form:" + fs.Form
		g.finish(&fs.MyStep, fmt.Sprintf("select id from %s where %s %s %s order by id", t.Name, c.Name, op, e), ps)
		return fs
	}
	return st, search, true
}
