package proxyrig

import (
	"encoding/binary"
	"encoding/hex"
	"fmt"
	"github.com/jackc/pgx/v5/pgproto3"
	"strconv"
	"strings"

	"verif/harness/internal/gen"
	"verif/harness/internal/rig/fakepg"
)

// Val is an application value.
type Val struct {
	Null bool
	Type fakepg.ColType
	I    int64
	S    string
	B    []byte
}

// Bytes is the plaintext byte string Acra is expected to protect for this value.
func (v Val) Bytes() []byte {
	switch v.Type {
	case fakepg.Int4, fakepg.Int8:
		return []byte(strconv.FormatInt(v.I, 10))
	case fakepg.Text:
		return []byte(v.S)
	default:
		return v.B
	}
}

// Literal spells the value as SQL text; style selects among equivalent spellings.
func (v Val) Literal(style int, allowCast bool) string {
	if !allowCast && style%4 == 1 {
		style++
	}
	if v.Null {
		return "NULL"
	}
	switch v.Type {
	case fakepg.Int4, fakepg.Int8:
		switch style % 3 {
		case 1:
			return "'" + strconv.FormatInt(v.I, 10) + "'"
		default:
			if v.I < 0 {
				return "'" + strconv.FormatInt(v.I, 10) + "'"
			}
			return strconv.FormatInt(v.I, 10)
		}
	case fakepg.Text:
		q := "'" + strings.ReplaceAll(v.S, "'", "''") + "'"
		switch style % 4 {
		case 1:
			return q + "::text"
		case 2:
			if !strings.Contains(v.S, `\`) {
				return "E" + q
			}
		}
		return q
	default:
		h := `'\x` + hex.EncodeToString(v.B) + "'"
		switch style % 4 {
		case 1:
			return h + "::bytea"
		case 2:
			printable := len(v.B) > 0
			for _, c := range v.B {
				if c < 0x20 || c > 0x7e || c == '\\' || c == '\'' {
					printable = false
				}
			}
			if printable {
				return "'" + string(v.B) + "'"
			}
		}
		return h
	}
}

// Param renders the value as a bound parameter.
func (v Val) Param(binaryFmt bool) []byte {
	if v.Null {
		return nil
	}
	switch v.Type {
	case fakepg.Int4:
		if binaryFmt {
			b := make([]byte, 4)
			binary.BigEndian.PutUint32(b, uint32(int32(v.I)))
			return b
		}
		return []byte(strconv.FormatInt(v.I, 10))
	case fakepg.Int8:
		if binaryFmt {
			b := make([]byte, 8)
			binary.BigEndian.PutUint64(b, uint64(v.I))
			return b
		}
		return []byte(strconv.FormatInt(v.I, 10))
	case fakepg.Text:
		return []byte(v.S)
	default:
		if binaryFmt {
			return append([]byte{}, v.B...)
		}
		return []byte(`\x` + hex.EncodeToString(v.B))
	}
}

// Marker returns the byte string whose presence in a stream means the plaintext leaked (nil when the value is too short to be unambiguous).
func (v Val) Marker() []byte {
	if v.Null {
		return nil
	}
	b := v.Bytes()
	if len(b) < 9 {
		return nil
	}
	return b
}

var markerSeq int

// GenVal draws a value of the given application type; class picks among shapes.
func GenVal(r *gen.Rand, t fakepg.ColType, nullable bool) Val {
	if nullable && r.Intn(12) == 0 {
		return Val{Null: true, Type: t}
	}
	markerSeq++
	mk := fmt.Sprintf("MK%08x%08x", r.Uint32(), uint32(markerSeq))
	switch t {
	case fakepg.Int4:
		switch r.Intn(6) {
		case 0:
			return Val{Type: t, I: []int64{0, 1, -1, 2147483647, -2147483648, 42}[r.Intn(6)]}
		default:
			return Val{Type: t, I: int64(1000000000 + r.Intn(1147483647))}
		}
	case fakepg.Int8:
		switch r.Intn(6) {
		case 0:
			return Val{Type: t, I: []int64{0, 1, -1, 9223372036854775807, -9223372036854775808, 2147483648}[r.Intn(6)]}
		default:
			return Val{Type: t, I: 1000000000000 + r.Int63n(8000000000000000000)}
		}
	case fakepg.Text:
		switch r.Intn(10) {
		case 0:
			return Val{Type: t, S: ""}
		case 1:
			return Val{Type: t, S: mk + " it's \"quoted\" äß漢"}
		case 2:
			return Val{Type: t, S: string(rune('a' + r.Intn(26)))}
		case 3:
			return Val{Type: t, S: mk + strings.Repeat("x", 200+r.Intn(800))}
		default:
			return Val{Type: t, S: mk + " " + string(gen.Content(r, "ascii", r.Intn(20)))}
		}
	default:
		switch r.Intn(10) {
		case 0:
			return Val{Type: t, B: []byte{}}
		case 1:
			return Val{Type: t, B: []byte{byte(r.Intn(256))}}
		case 2:
			return Val{Type: t, B: append([]byte(mk), gen.Bytes(r, 300+r.Intn(2000))...)}
		case 3:
			return Val{Type: t, B: []byte(mk + " printable")}
		default:
			return Val{Type: t, B: append([]byte(mk), gen.Bytes(r, r.Intn(40))...)}
		}
	}
}

// Written records a plaintext this step writes into a configured column.
type Written struct {
	Table, Col string
	V          Val
}

// Step is one client statement (possibly several protocol round trips), sent identically through Acra and to the reference database.
type Step struct {
	Kind   string // insert | update | delete | select
	Table  string
	SQL    string
	Proto  string                       // simple | extended | extended-describe-stmt | extended-reuse
	Groups [][]pgproto3.FrontendMessage // each group ends with Query or Sync; the runner waits for ReadyForQuery after each
	// RefGroups, when set, is what the reference database gets instead of Groups: same statement shape, but the values the
	// application encrypted itself (AcraStruct / AcraBlock made by AcraWriter / AcraTranslator) are spelled as their plaintexts.
	RefGroups     [][]pgproto3.FrontendMessage
	Writes        []Written
	ParamFmt      string   // none | text | binary | mixed
	ResFmt        string   // text | binary | mixed
	Detail        string   // names, format codes
	Tag           string   // generator-side classification of what is special about the statement (goes into violation signatures)
	ParamDesc     []string // bound values written out (for replay files)
	FormatPattern string   // set when the parameter format codes were forced into a named pattern
	ResultCols    []string // table column behind each result field, in order (for replies that carry no RowDescription)
}
