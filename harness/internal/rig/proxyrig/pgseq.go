package proxyrig

// pgseq.go: protocol-SEQUENCE variants of the PostgreSQL extended query protocol (reusable by any monitor that judges replies
// per statement). The other generators of this package send Parse/Bind/Describe/Execute/Sync of one statement inside ONE query
// cycle (or Parse+Describe(statement) and then Bind+Execute). Real drivers do more: libpq PQprepare + PQexecPrepared, psycopg3,
// JDBC server-side prepares and re-describes parse a statement in one cycle and bind / describe the portal / execute it in later
// ones, keep several statements prepared and run them in any order, run simple queries in between, use Flush instead of Sync
// and pipeline cycles. A SeqShape turns a list of statements into such a script; RunSeq sends it and attributes every backend
// message to the frontend message it answers, so that an oracle can judge each RowDescription / DataRow against the statement
// it belongs to, whatever the sequencing.

import (
	"fmt"

	"github.com/jackc/pgx/v5/pgproto3"
)

// SeqStmt is one logical statement of a sequence.
type SeqStmt struct {
	SQL           string
	Params        [][]byte
	ParamFormats  []int16
	ResultFormats []int16
}

// SeqOp is one frontend message of a scripted exchange and, after RunSeq, the backend messages that answer it.
type SeqOp struct {
	Msg  pgproto3.FrontendMessage
	Kind string // parse | bind | describe-statement | describe-portal | execute | sync | flush | close | query
	Stmt int    // index of the logical statement the message belongs to (-1: none)
	Exec int    // running number of the execution (Bind ... Execute, or simple Query) the message belongs to (-1: none)
	// Wait: after this message the client flushes its socket and reads the answers of everything sent so far (a Sync / Query /
	// Flush without Wait is pipelined: the following messages are written before its answer is read).
	Wait bool

	Replies []BackendMsg // filled by RunSeq
	// Skipped: the message got no answer because an earlier message of its cycle was answered with an error (the database
	// discards messages up to the next Sync).
	Skipped bool
	// Batch is the number of the socket write the message went out with (all messages of one batch are in flight together).
	Batch int
}

// Error returns the ErrorResponse among the answers of the message.
func (o *SeqOp) Error() *pgproto3.ErrorResponse { return ErrorOf(o.Replies) }

// SeqNames says how statements and portals are named in a script.
type SeqNames struct {
	NamedStatements bool // false: the unnamed statement (only where the shape allows it)
	NamedPortals    bool // one named portal, bound again by every execution
}

// SeqShape is one way of sequencing the protocol messages of a list of statements.
type SeqShape struct {
	Name string
	// NeedsNamed: several statements are prepared at once, so they must be named.
	NeedsNamed bool
	// MinStmts is the number of statements the shape needs at least.
	MinStmts int
	// Pipelined: cycles are written without waiting for the answer of the previous one.
	Pipelined bool
	Build     func(b *SeqBuilder, stmts []SeqStmt)
}

// SeqBuilder assembles a script.
type SeqBuilder struct {
	Ops   []SeqOp
	names SeqNames
	stmts []SeqStmt
	exec  int
	tag   string
}

func (b *SeqBuilder) stmtName(i int) string {
	if b.names.NamedStatements {
		return fmt.Sprintf("%ss%d", b.tag, i)
	}
	return ""
}

func (b *SeqBuilder) portalName(i int) string {
	if b.names.NamedPortals {
		// ONE portal name for every execution of the script: a portal does not outlive its cycle, so binding the name again
		// (to another statement, with other result formats) is what a driver with a fixed portal name does
		return b.tag + "portal"
	}
	return ""
}

func (b *SeqBuilder) add(kind string, stmt, exec int, wait bool, m pgproto3.FrontendMessage) {
	b.Ops = append(b.Ops, SeqOp{Msg: m, Kind: kind, Stmt: stmt, Exec: exec, Wait: wait})
}

// Parse prepares statement i.
func (b *SeqBuilder) Parse(i int) { b.ParseAs(i, b.stmtName(i)) }

// ParseAs prepares statement i under the given name.
func (b *SeqBuilder) ParseAs(i int, name string) {
	b.add("parse", i, -1, false, &pgproto3.Parse{Name: name, Query: b.stmts[i].SQL})
}

// DescribeStmt asks for the description of prepared statement i.
func (b *SeqBuilder) DescribeStmt(i int) { b.DescribeStmtAs(i, b.stmtName(i)) }

// DescribeStmtAs asks for the description of the prepared statement of the given name (which holds statement i).
func (b *SeqBuilder) DescribeStmtAs(i int, name string) {
	b.add("describe-statement", i, -1, false, &pgproto3.Describe{ObjectType: 'S', Name: name})
}

// Bind starts a new execution of statement i and returns the portal name.
func (b *SeqBuilder) Bind(i int) string { return b.BindAs(i, b.stmtName(i)) }

// BindAs binds the prepared statement of the given name (which holds statement i).
func (b *SeqBuilder) BindAs(i int, name string) string {
	b.exec++
	p := b.portalName(i)
	s := b.stmts[i]
	b.add("bind", i, b.exec, false, &pgproto3.Bind{PreparedStatement: name, DestinationPortal: p, ParameterFormatCodes: s.ParamFormats, Parameters: s.Params, ResultFormatCodes: s.ResultFormats})
	return p
}

// DescribePortal asks for the description of the portal of the current execution of statement i.
func (b *SeqBuilder) DescribePortal(i int, portal string) {
	b.add("describe-portal", i, b.exec, false, &pgproto3.Describe{ObjectType: 'P', Name: portal})
}

// Execute runs the portal of the current execution of statement i to completion.
func (b *SeqBuilder) Execute(i int, portal string) {
	b.add("execute", i, b.exec, false, &pgproto3.Execute{Portal: portal})
}

// Sync ends the query cycle; wait: read the answers before going on.
func (b *SeqBuilder) Sync(wait bool) { b.add("sync", -1, -1, wait, &pgproto3.Sync{}) }

// Flush asks for the answers so far without ending the cycle, and reads them.
func (b *SeqBuilder) Flush() { b.add("flush", -1, -1, true, &pgproto3.Flush{}) }

// CloseStmt closes the prepared statement of the given name.
func (b *SeqBuilder) CloseStmt(name string) {
	b.add("close", -1, -1, false, &pgproto3.Close{ObjectType: 'S', Name: name})
}

// Query runs statement i with the simple protocol (the statement must not have parameters).
func (b *SeqBuilder) Query(i int, wait bool) {
	b.exec++
	b.add("query", i, b.exec, wait, &pgproto3.Query{String: b.stmts[i].SQL})
}

// Run: Bind + Describe(portal) + Execute + Sync of statement i in one cycle.
func (b *SeqBuilder) Run(i int, describe, wait bool) {
	p := b.Bind(i)
	if describe {
		b.DescribePortal(i, p)
	}
	b.Execute(i, p)
	b.Sync(wait)
}

// BuildSeq makes the script of a shape. tag prefixes the statement / portal names (several scripts on one connection).
func BuildSeq(sh SeqShape, stmts []SeqStmt, names SeqNames, tag string) []SeqOp {
	if sh.NeedsNamed {
		names.NamedStatements = true
	}
	b := &SeqBuilder{names: names, stmts: stmts, tag: tag}
	sh.Build(b, stmts)
	// the last message always waits
	if n := len(b.Ops); n > 0 {
		b.Ops[n-1].Wait = true
	}
	return b.Ops
}

// SeqShapes are the sequencing variants. Every one is legal protocol use (portals are bound, described and executed inside one
// cycle because they do not outlive it outside a transaction block; the unnamed statement is not used across a simple Query,
// which destroys it).
var SeqShapes = []SeqShape{
	{Name: "parse-sync-then-bind-describe-portal-execute", MinStmts: 1, Build: func(b *SeqBuilder, st []SeqStmt) {
		// libpq PQprepare + PQexecPrepared / psycopg3 / JDBC server-side prepare
		for i := range st {
			b.Parse(i)
			b.Sync(true)
			b.Run(i, true, true)
		}
	}},
	{Name: "parse-describe-statement-sync-then-bind-execute", MinStmts: 1, Build: func(b *SeqBuilder, st []SeqStmt) {
		for i := range st {
			b.Parse(i)
			b.DescribeStmt(i)
			b.Sync(true)
			b.Run(i, false, true)
		}
	}},
	{Name: "parse-sync-describe-statement-sync-then-bind-describe-portal-execute", MinStmts: 1, Build: func(b *SeqBuilder, st []SeqStmt) {
		// a driver that re-describes a cached statement in its own cycle
		for i := range st {
			b.Parse(i)
			b.Sync(true)
			b.DescribeStmt(i)
			b.Sync(true)
			b.Run(i, true, true)
		}
	}},
	{Name: "same-statement-executed-three-times", MinStmts: 1, Build: func(b *SeqBuilder, st []SeqStmt) {
		b.Parse(0)
		b.Sync(true)
		for k := 0; k < 3; k++ {
			b.Run(0, true, true)
		}
	}},
	{Name: "flush-between-steps", MinStmts: 1, Build: func(b *SeqBuilder, st []SeqStmt) {
		for i := range st {
			b.Parse(i)
			b.Flush()
			p := b.Bind(i)
			b.DescribePortal(i, p)
			b.Flush()
			b.Execute(i, p)
			b.Sync(true)
		}
	}},
	{Name: "parse-flush-sync-then-run", MinStmts: 1, Build: func(b *SeqBuilder, st []SeqStmt) {
		for i := range st {
			b.Parse(i)
			b.Flush()
			b.Sync(true)
			b.Run(i, true, true)
		}
	}},
	{Name: "pipelined-one-statement", MinStmts: 1, Pipelined: true, Build: func(b *SeqBuilder, st []SeqStmt) {
		// Parse+Sync and two executions written at once: the ReadyForQuery of a cycle is still on its way when the next cycle arrives
		b.Parse(0)
		b.Sync(false)
		b.Run(0, true, false)
		b.Run(0, true, true)
	}},
	{Name: "statement-modifying-rows-between-parse-and-execution", MinStmts: 2, NeedsNamed: true, Build: func(b *SeqBuilder, st []SeqStmt) {
		// the last statement is expected to be one that returns no rows (the caller passes an UPDATE that changes nothing)
		last := len(st) - 1
		b.Parse(0)
		b.Sync(true)
		b.Query(last, true)
		b.Run(0, true, true)
		b.Parse(last)
		b.Sync(true)
		b.Run(last, true, true)
		b.Run(0, true, true)
	}},
	{Name: "several-prepared-then-executed-in-another-order", MinStmts: 2, NeedsNamed: true, Build: func(b *SeqBuilder, st []SeqStmt) {
		for i := range st {
			b.Parse(i)
			b.Sync(true)
		}
		for k := range st {
			b.Run((k+1)%len(st), true, true)
		}
		for i := len(st) - 1; i >= 0; i-- {
			b.Run(i, true, true)
		}
	}},
	{Name: "several-parsed-in-one-cycle-then-executed", MinStmts: 2, NeedsNamed: true, Build: func(b *SeqBuilder, st []SeqStmt) {
		for i := range st {
			b.Parse(i)
		}
		b.Sync(true)
		for i := range st {
			b.Run(i, true, true)
		}
	}},
	{Name: "re-executed-around-a-simple-query", MinStmts: 2, NeedsNamed: true, Build: func(b *SeqBuilder, st []SeqStmt) {
		b.Parse(0)
		b.Sync(true)
		b.Run(0, true, true)
		b.Query(1, true)
		b.Run(0, true, true)
		b.DescribeStmt(0)
		b.Sync(true)
	}},
	{Name: "name-reused-for-another-statement", MinStmts: 2, NeedsNamed: true, Build: func(b *SeqBuilder, st []SeqStmt) {
		name := b.tag + "reused"
		for i := range st {
			b.ParseAs(i, name)
			b.Sync(true)
			p := b.BindAs(i, name)
			b.DescribePortal(i, p)
			b.Execute(i, p)
			b.Sync(true)
			b.CloseStmt(name)
			b.Sync(true)
		}
	}},
	{Name: "pipelined-several-statements", MinStmts: 2, NeedsNamed: true, Pipelined: true, Build: func(b *SeqBuilder, st []SeqStmt) {
		for i := range st {
			b.Parse(i)
			b.Run(i, true, false)
		}
	}},
}

// SeqShapeByName finds a shape.
func SeqShapeByName(name string) *SeqShape {
	for i := range SeqShapes {
		if SeqShapes[i].Name == name {
			return &SeqShapes[i]
		}
	}
	return nil
}

// terminal reports whether the backend message ends the answer of a frontend message of the given kind.
func seqTerminal(kind string, m BackendMsg) bool {
	switch kind {
	case "parse":
		return m.Type == "ParseComplete"
	case "bind":
		return m.Type == "BindComplete"
	case "describe-statement", "describe-portal":
		return m.Type == "RowDescription" || m.Type == "NoData"
	case "execute":
		return m.Type == "CommandComplete" || m.Type == "PortalSuspended" || m.Type == "EmptyQueryResponse"
	case "close":
		return m.Type == "CloseComplete"
	case "sync", "query":
		return m.Type == "ReadyForQuery"
	}
	return false
}

// RunSeq sends the script and attributes the answers. An error is returned when the connection breaks, the watchdog expires
// or the answers do not fit the protocol (then the Replies gathered so far are kept).
func RunSeq(c *PGClient, ops []SeqOp) error {
	answered := 0 // ops[:answered] have their answers
	failed := false
	batch := 0
	for i := range ops {
		c.fe.Send(ops[i].Msg)
		ops[i].Batch = batch
		if !ops[i].Wait {
			continue
		}
		batch++
		if err := c.fe.Flush(); err != nil {
			return err
		}
		for ; answered <= i; answered++ {
			op := &ops[answered]
			if op.Kind == "flush" {
				continue
			}
			if failed && op.Kind != "sync" {
				op.Skipped = true
				continue
			}
			for {
				ms, err := c.ReadUntil(func(BackendMsg) bool { return true })
				if err != nil {
					op.Replies = append(op.Replies, ms...)
					return err
				}
				m := ms[0]
				if m.Type == "NoticeResponse" || m.Type == "ParameterStatus" || m.Type == "NotificationResponse" {
					continue
				}
				op.Replies = append(op.Replies, m)
				if m.Type == "ErrorResponse" && op.Kind != "query" && op.Kind != "sync" {
					failed = true
					break
				}
				if seqTerminal(op.Kind, m) {
					break
				}
				if m.Type == "ReadyForQuery" {
					return fmt.Errorf("proxyrig: ReadyForQuery while the answer of %s (message %d) was expected", op.Kind, answered)
				}
			}
			if op.Kind == "sync" {
				failed = false
			}
		}
	}
	return nil
}
