package proxyrig

import (
	"fmt"
	"io"
	"net"
	"sync"
	"time"

	"github.com/jackc/pgx/v5/pgproto3"
)

// BackendMsg is one message received by the client, decoded by pgproto3 and kept with its wire bytes.
type BackendMsg struct {
	Type string
	Raw  []byte
	Msg  pgproto3.BackendMessage // deep copy
}

// PGClient is a scripted PostgreSQL client.
type PGClient struct {
	conn   net.Conn
	fe     *pgproto3.Frontend
	mu     sync.Mutex
	rawIn  []byte
	rawOut []byte
}

type recConn struct {
	net.Conn
	c *PGClient
}

func (r *recConn) Read(p []byte) (int, error) {
	n, err := r.Conn.Read(p)
	if n > 0 {
		r.c.mu.Lock()
		r.c.rawIn = append(r.c.rawIn, p[:n]...)
		r.c.mu.Unlock()
	}
	return n, err
}

func (r *recConn) Write(p []byte) (int, error) {
	r.c.mu.Lock()
	r.c.rawOut = append(r.c.rawOut, p...)
	r.c.mu.Unlock()
	return r.Conn.Write(p)
}

// Timeout is the generous watchdog for one protocol exchange (its firing is reported as an error the caller treats as inconclusive).
var Timeout = 20 * time.Second

// ErrTimeout marks watchdog expiry.
var ErrTimeout = fmt.Errorf("proxyrig: exchange watchdog expired")

// DialPG connects (retrying while the listener comes up) and performs the startup exchange.
func DialPG(port int) (*PGClient, []BackendMsg, error) {
	var conn net.Conn
	var err error
	for i := 0; i < 600; i++ {
		conn, err = net.DialTimeout("tcp", fmt.Sprintf("127.0.0.1:%d", port), time.Second)
		if err == nil {
			break
		}
		time.Sleep(5 * time.Millisecond)
	}
	if err != nil {
		return nil, nil, err
	}
	c := &PGClient{conn: conn}
	rc := &recConn{Conn: conn, c: c}
	c.fe = pgproto3.NewFrontend(rc, rc)
	c.fe.Send(&pgproto3.StartupMessage{ProtocolVersion: pgproto3.ProtocolVersionNumber, Parameters: map[string]string{"user": "app", "database": "db"}})
	if err := c.fe.Flush(); err != nil {
		conn.Close()
		return nil, nil, err
	}
	msgs, err := c.ReadUntilReady()
	if err != nil {
		conn.Close()
		return nil, msgs, err
	}
	return c, msgs, nil
}

// DialPGAuth connects and answers a password authentication request with the given password.
func DialPGAuth(port int, password string) (*PGClient, error) {
	var conn net.Conn
	var err error
	for i := 0; i < 600; i++ {
		conn, err = net.DialTimeout("tcp", fmt.Sprintf("127.0.0.1:%d", port), time.Second)
		if err == nil {
			break
		}
		time.Sleep(5 * time.Millisecond)
	}
	if err != nil {
		return nil, err
	}
	c := &PGClient{conn: conn}
	rc := &recConn{Conn: conn, c: c}
	c.fe = pgproto3.NewFrontend(rc, rc)
	c.fe.Send(&pgproto3.StartupMessage{ProtocolVersion: pgproto3.ProtocolVersionNumber, Parameters: map[string]string{"user": "app", "database": "db"}})
	if err := c.fe.Flush(); err != nil {
		conn.Close()
		return nil, err
	}
	if _, err := c.ReadUntil(func(m BackendMsg) bool {
		return m.Type == "AuthenticationCleartextPassword" || m.Type == "AuthenticationMD5Password" || m.Type == "ReadyForQuery"
	}); err != nil {
		conn.Close()
		return nil, err
	}
	c.fe.Send(&pgproto3.PasswordMessage{Password: password})
	if err := c.fe.Flush(); err != nil {
		conn.Close()
		return nil, err
	}
	if _, err := c.ReadUntilReady(); err != nil {
		conn.Close()
		return nil, err
	}
	return c, nil
}

// Close terminates the session.
func (c *PGClient) Close() {
	c.fe.Send(&pgproto3.Terminate{})
	c.fe.Flush()
	c.conn.Close()
}

// Abort closes the socket without Terminate.
func (c *PGClient) Abort() { c.conn.Close() }

// Send queues frontend messages and flushes.
func (c *PGClient) Send(msgs ...pgproto3.FrontendMessage) error {
	for _, m := range msgs {
		c.fe.Send(m)
	}
	return c.fe.Flush()
}

// SendRaw writes raw bytes to the proxy.
func (c *PGClient) SendRaw(b []byte) error {
	c.mu.Lock()
	c.rawOut = append(c.rawOut, b...)
	c.mu.Unlock()
	_, err := c.conn.Write(b)
	return err
}

func cloneBackend(m pgproto3.BackendMessage) (BackendMsg, error) {
	raw, err := m.Encode(nil)
	if err != nil {
		return BackendMsg{}, err
	}
	bm := BackendMsg{Type: fmt.Sprintf("%T", m)[len("*pgproto3."):], Raw: raw}
	// decode a private copy from the bytes
	var cp pgproto3.BackendMessage
	switch m.(type) {
	case *pgproto3.DataRow:
		cp = &pgproto3.DataRow{}
	case *pgproto3.RowDescription:
		cp = &pgproto3.RowDescription{}
	case *pgproto3.ErrorResponse:
		cp = &pgproto3.ErrorResponse{}
	case *pgproto3.CommandComplete:
		cp = &pgproto3.CommandComplete{}
	case *pgproto3.ParameterDescription:
		cp = &pgproto3.ParameterDescription{}
	case *pgproto3.ReadyForQuery:
		cp = &pgproto3.ReadyForQuery{}
	case *pgproto3.NoticeResponse:
		cp = &pgproto3.NoticeResponse{}
	case *pgproto3.ParameterStatus:
		cp = &pgproto3.ParameterStatus{}
	case *pgproto3.NotificationResponse:
		cp = &pgproto3.NotificationResponse{}
	}
	if cp != nil {
		if err := cp.Decode(append([]byte{}, raw[5:]...)); err == nil {
			bm.Msg = cp
		}
	}
	return bm, nil
}

// ReadUntilReady reads backend messages up to and including ReadyForQuery.
func (c *PGClient) ReadUntilReady() ([]BackendMsg, error) {
	return c.ReadUntil(func(m BackendMsg) bool { return m.Type == "ReadyForQuery" })
}

// ReadUntil reads until stop returns true (inclusive) or the connection ends.
func (c *PGClient) ReadUntil(stop func(BackendMsg) bool) ([]BackendMsg, error) {
	var out []BackendMsg
	c.conn.SetReadDeadline(time.Now().Add(Timeout))
	defer c.conn.SetReadDeadline(time.Time{})
	for {
		m, err := c.fe.Receive()
		if err != nil {
			if ne, ok := err.(net.Error); ok && ne.Timeout() {
				return out, ErrTimeout
			}
			if err == io.ErrUnexpectedEOF {
				err = io.EOF
			}
			return out, err
		}
		bm, err := cloneBackend(m)
		if err != nil {
			return out, err
		}
		out = append(out, bm)
		if stop(bm) {
			return out, nil
		}
	}
}

// Simple runs one simple-protocol statement.
func (c *PGClient) Simple(sql string) ([]BackendMsg, error) {
	if err := c.Send(&pgproto3.Query{String: sql}); err != nil {
		return nil, err
	}
	return c.ReadUntilReady()
}

// Extended runs Parse/Bind/Describe/Execute/Sync for one statement.
func (c *PGClient) Extended(stmtName, sql string, paramOIDs []uint32, params [][]byte, paramFormats, resultFormats []int16, maxRows uint32) ([]BackendMsg, error) {
	msgs := []pgproto3.FrontendMessage{
		&pgproto3.Parse{Name: stmtName, Query: sql, ParameterOIDs: paramOIDs},
		&pgproto3.Bind{PreparedStatement: stmtName, DestinationPortal: "", ParameterFormatCodes: paramFormats, Parameters: params, ResultFormatCodes: resultFormats},
		&pgproto3.Describe{ObjectType: 'P', Name: ""},
		&pgproto3.Execute{Portal: "", MaxRows: maxRows},
		&pgproto3.Sync{},
	}
	if err := c.Send(msgs...); err != nil {
		return nil, err
	}
	return c.ReadUntilReady()
}

// DrainRaw reads raw bytes (without decoding them) until the peer closes or stays quiet for the given time.
// Used with hostile replies, where decoding on the client side would only test the client's codec.
func (c *PGClient) DrainRaw(quiet time.Duration) int {
	total := 0
	buf := make([]byte, 65536)
	for {
		c.conn.SetReadDeadline(time.Now().Add(quiet))
		n, err := c.conn.Read(buf)
		total += n
		if n > 0 {
			c.mu.Lock()
			c.rawIn = append(c.rawIn, buf[:n]...)
			c.mu.Unlock()
		}
		if err != nil {
			c.conn.SetReadDeadline(time.Time{})
			return total
		}
	}
}

// RawIn returns every byte received from the proxy so far.
func (c *PGClient) RawIn() []byte { c.mu.Lock(); defer c.mu.Unlock(); return append([]byte{}, c.rawIn...) }

// RawOut returns every byte sent to the proxy so far.
func (c *PGClient) RawOut() []byte { c.mu.Lock(); defer c.mu.Unlock(); return append([]byte{}, c.rawOut...) }

// Rows extracts the DataRow values from a reply.
func Rows(msgs []BackendMsg) [][][]byte {
	var out [][][]byte
	for _, m := range msgs {
		if dr, ok := m.Msg.(*pgproto3.DataRow); ok {
			out = append(out, dr.Values)
		}
	}
	return out
}

// RowDesc returns the last RowDescription of a reply.
func RowDesc(msgs []BackendMsg) *pgproto3.RowDescription {
	var rd *pgproto3.RowDescription
	for _, m := range msgs {
		if x, ok := m.Msg.(*pgproto3.RowDescription); ok {
			rd = x
		}
	}
	return rd
}

// ErrorOf returns the first ErrorResponse of a reply.
func ErrorOf(msgs []BackendMsg) *pgproto3.ErrorResponse {
	for _, m := range msgs {
		if x, ok := m.Msg.(*pgproto3.ErrorResponse); ok {
			return x
		}
	}
	return nil
}
