// Package censorgen generates SQL statements with a known structure (kind, tables named directly in
// FROM / INSERT target, tables named only inside sub-selects, literal positions, sub-selects, unions),
// formatting variants of them, and firewall patterns DERIVED from them by generalising a chosen subset of
// their literals / IN-lists / columns / WHERE clauses / sub-selects. Nothing here parses SQL: every fact the
// C05 oracle uses about a statement is known because the generator put it there.
package censorgen

import (
	"sort"
	"strings"
)

// Tok is one lexical element of a rendered statement.
type Tok struct {
	S string
	K bool // keyword: case may vary between formatting variants
	P bool // punctuation/operator: surrounding whitespace is optional
}

// ---- expression nodes ----

type Expr interface{}

type Col struct{ Name string }
type Lit struct {
	Text string // canonical spelling ('abc', 42, 1.5, null, true, X'1F')
	Kw   bool   // null/true/false: spelled as keyword
}
type Cmp struct {
	Op   string
	L, R Expr
}
type Logic struct {
	Op   string // and / or
	L, R Expr
}
type Paren struct{ E Expr }
type In struct {
	L    Expr
	Not  bool
	List []Expr
}
type InSub struct {
	L   Expr
	Not bool
	Sub *Select
}
type CmpSub struct {
	Op  string
	L   Expr
	Sub *Select
}
type Exists struct{ Sub *Select }
type Between struct{ L, From, To Expr }
type IsNull struct {
	L   Expr
	Not bool
}

// Case is "case when <Cond> then <Then> [else <Else>] end".
type Case struct {
	Cond       Expr
	Then, Else Expr
}

// Cast is "cast(<E> as <Type>)".
type Cast struct {
	E    Expr
	Type string
}

// DateAdd is "date_add(<E>, interval <N> <Unit>)".
type DateAdd struct {
	E    Expr
	N    string
	Unit string
}
type Func struct {
	Name string
	Star bool
	Args []Expr
}

// ---- table references ----

type TableRef interface{}
type TName struct{ Name, As string }
type Join struct {
	Kind string // "join", "inner join", "left join"
	L, R TableRef
	On   Expr
}
type ParenT struct{ Items []TableRef }
type Derived struct {
	Sub *Select
	As  string
}

// ---- statements ----

type SelExpr struct {
	Star bool
	E    Expr
	As   string
	// StarOf, with Star, is the table of a qualified star: "t1.*" (qual.go)
	StarOf string
}
type Order struct {
	E   Expr
	Dir string
}
type Select struct {
	Distinct bool
	Cols     []SelExpr
	From     []TableRef
	Where    Expr
	GroupBy  []Expr
	Having   Expr
	OrderBy  []Order
	Limit    *Lit
}
type Insert struct {
	Replace bool
	Table   string
	Cols    []string
	Rows    [][]Expr
	Sel     *Select
}
type SetExpr struct {
	Col string
	Val Expr
}
type Update struct {
	Table string
	Sets  []SetExpr
	Where Expr
}
type Delete struct {
	Table string
	Where Expr
}
type Union struct {
	L, R *Select
	All  bool
}

// Site is one place of a statement that a pattern may generalise.
type Site struct {
	Kind string // value | list | column | where | subquery
	N    int    // list: number of elements
	Text string // value: the literal at this site
	Int  bool   // value: only an integer literal is meaningful here (LIMIT)
	In   string // value: clause the literal stands in (where, having, limit, values, set)
}

// Stmt is a generated statement plus everything the oracle knows about it by construction.
type Stmt struct {
	ID     int
	Kind   string // select | union | insert | update | delete
	Shape  string // finer class for coverage: select-join, select-sub, insert-select, ...
	Node   interface{}
	Direct []string // tables named directly in FROM (incl. joins, parenthesised lists) / INSERT, UPDATE, DELETE target
	Sub    []string // tables named only inside sub-selects (incl. the SELECT of INSERT ... SELECT)
	// DerivedFrom is true when the top-level FROM contains a sub-select in place of a table
	DerivedFrom bool
	Sites       []Site
	Canon       string
	// sibling statements differ from their base in exactly one literal
	CousinOf    int // -1, or the id of the statement this one was made from by dropping its WHERE clause
	BaseID      int // -1: not a sibling
	ChangedSite int
	Over        map[int]Lit // literal overrides by value-site index (how a sibling differs from its base)
	// Rows is set for row-count relatives of INSERT ... VALUES statements (rows.go); nil for pool statements
	Rows *RowRel
	// Occs lists the places where the statement names a table (FROM, JOIN, INSERT INTO, UPDATE, DELETE FROM, sub-selects) or
	// qualifies a column / star with a table name; Qual is set for schema-qualified relatives of a statement (qual.go)
	Occs     []Occ
	Qual     *QualRel
	variants []string
}

// Mask selects the sites a pattern generalises. For list sites the value is the number of leading elements
// kept (0 = whole list becomes %%LIST_OF_VALUES%%); for other sites any value means "replace".
type Mask map[int]int

type renderer struct {
	out     []Tok
	mask    Mask
	pattern bool
	mute    int
	nsite   int
	sites   []Site
	covered map[int]bool // value sites hidden by some generalisation
	used    map[string]bool
	depth   int // >0 inside a sub-select
	over    map[int]Lit
	clause  string
	feat    map[string]bool // expression forms with their own comparator in Acra's matcher, when rendered un-generalised
	shadowN int             // >0 while rendering the clauses that follow a generalised WHERE of the same SELECT
	shadow  map[int]bool    // value sites standing after a generalised WHERE (GROUP BY / HAVING / ORDER BY / LIMIT)
	direct  []string
	sub     []string
	derived bool
	// name occurrences (qual.go)
	qual       map[int]string // occurrence -> schema qualifier it is spelled with
	occs       []Occ
	occCovered map[int]bool // occurrences a pattern does not spell out (under a placeholder / after a generalised WHERE)
	joinN      int
}

func (r *renderer) kw(words string) {
	if r.mute > 0 {
		return
	}
	for _, w := range strings.Fields(words) {
		r.out = append(r.out, Tok{S: w, K: true})
	}
}
func (r *renderer) raw(s string) {
	if r.mute == 0 {
		r.out = append(r.out, Tok{S: s})
	}
}
func (r *renderer) p(s string) {
	if r.mute == 0 {
		r.out = append(r.out, Tok{S: s, P: true})
	}
}
func (r *renderer) site(kind string, n int, text string) (idx int, replaced bool, keep int) {
	idx = r.nsite
	r.nsite++
	r.sites = append(r.sites, Site{Kind: kind, N: n, Text: text, In: r.clause})
	if kind == "value" && r.shadowN > 0 {
		r.shadow[idx] = true
	}
	if r.mute > 0 {
		if kind == "value" {
			r.covered[idx] = true
		}
		return idx, false, 0
	}
	if r.pattern {
		if k, ok := r.mask[idx]; ok {
			if kind == "where" && r.depth > 0 {
				r.used["subwhere"] = true // the WHERE clause of a sub-select (or of the SELECT of INSERT ... SELECT)
			} else {
				r.used[kind] = true
			}
			return idx, true, k
		}
	}
	return idx, false, 0
}
func (r *renderer) mark(f string) {
	if r.mute == 0 {
		r.feat[f] = true
	}
}
func (r *renderer) table(name string) {
	if r.depth > 0 {
		r.sub = append(r.sub, name)
	} else {
		r.direct = append(r.direct, name)
	}
}

// value renders an expression standing at a literal position (generalisable with %%VALUE%% when it is a literal).
func (r *renderer) value(e Expr) {
	if l, ok := e.(Lit); ok {
		if o, ok := r.over[r.nsite]; ok {
			l = o
		}
		idx, rep, _ := r.site("value", 0, l.Text)
		if rep {
			r.covered[idx] = true
			r.raw("%%VALUE%%")
			return
		}
		r.lit(l)
		return
	}
	r.expr(e)
}
func (r *renderer) lit(l Lit) {
	if l.Kw {
		r.kw(l.Text)
	} else {
		r.raw(l.Text)
	}
}

func (r *renderer) expr(e Expr) {
	switch x := e.(type) {
	case Col:
		r.raw(r.colText(x.Name))
	case Lit:
		r.lit(x)
	case Cmp:
		r.expr(x.L)
		if x.Op == "like" {
			r.kw("like")
		} else {
			r.p(x.Op)
		}
		r.value(x.R)
	case Logic:
		r.expr(x.L)
		r.kw(x.Op)
		r.expr(x.R)
	case Paren:
		r.p("(")
		r.expr(x.E)
		r.p(")")
	case In:
		r.expr(x.L)
		if x.Not {
			r.kw("not")
		}
		r.kw("in")
		r.p("(")
		_, rep, keep := r.site("list", len(x.List), "")
		for i, it := range x.List {
			if rep && i >= keep {
				r.mute++
				r.value(it)
				r.mute--
				continue
			}
			if i > 0 {
				r.p(",")
			}
			r.value(it)
		}
		if rep {
			if keep > 0 {
				r.p(",")
			}
			r.raw("%%LIST_OF_VALUES%%")
		}
		r.p(")")
	case InSub:
		r.expr(x.L)
		if x.Not {
			r.kw("not")
		}
		r.kw("in")
		r.subquery(x.Sub)
	case CmpSub:
		r.expr(x.L)
		r.p(x.Op)
		r.subquery(x.Sub)
	case Exists:
		r.kw("exists")
		r.subquery(x.Sub)
	case Between:
		r.expr(x.L)
		r.kw("between")
		r.value(x.From)
		r.kw("and")
		r.value(x.To)
	case IsNull:
		r.expr(x.L)
		if x.Not {
			r.kw("is not null")
		} else {
			r.kw("is null")
		}
	case Func:
		// the function name and its opening parenthesis stay glued: "count (" is not an insignificant variant in MySQL
		r.raw(x.Name + "(")
		if x.Star {
			r.p("*")
		}
		for i, a := range x.Args {
			if i > 0 {
				r.p(",")
			}
			r.expr(a)
		}
		r.p(")")
	case Case:
		r.kw("case when")
		r.expr(x.Cond)
		r.kw("then")
		r.value(x.Then)
		if x.Else != nil {
			r.mark("case-else")
			r.kw("else")
			r.value(x.Else)
		}
		r.kw("end")
	case Cast:
		r.mark("cast")
		r.raw("cast(")
		r.expr(x.E)
		r.kw("as " + x.Type)
		r.p(")")
	case DateAdd:
		r.mark("interval")
		r.raw("date_add(")
		r.expr(x.E)
		r.p(",")
		r.kw("interval")
		r.raw(x.N)
		r.kw(x.Unit)
		r.p(")")
	default:
		panic("censorgen: unknown expression node")
	}
}

func (r *renderer) subquery(s *Select) {
	r.p("(")
	_, rep, _ := r.site("subquery", 0, "")
	r.depth++
	if rep {
		r.raw("%%SUBQUERY%%")
		r.mute++
		r.sel(s)
		r.mute--
	} else {
		r.sel(s)
	}
	r.depth--
	r.p(")")
}

func (r *renderer) tref(t TableRef) {
	switch x := t.(type) {
	case TName:
		n := r.name(x.Name, r.fromClass())
		r.table(n)
		r.raw(n)
		if x.As != "" {
			r.kw("as")
			r.raw(x.As)
		}
	case Join:
		r.tref(x.L)
		r.kw(x.Kind)
		r.joinN++
		r.tref(x.R)
		r.joinN--
		if x.On != nil {
			r.kw("on")
			r.expr(x.On)
		}
	case ParenT:
		r.p("(")
		for i, it := range x.Items {
			if i > 0 {
				r.p(",")
			}
			r.tref(it)
		}
		r.p(")")
	case Derived:
		if r.depth == 0 {
			r.derived = true
		}
		r.subquery(x.Sub)
		r.kw("as")
		r.raw(x.As)
	default:
		panic("censorgen: unknown table reference")
	}
}

func (r *renderer) where(w Expr) (generalised bool) {
	if w == nil {
		return false
	}
	defer func(c string) { r.clause = c }(r.clause)
	r.clause = "where"
	_, rep, _ := r.site("where", 0, "")
	if rep {
		r.raw("%%WHERE%%")
		r.mute++
	}
	r.kw("where")
	r.expr(w)
	if rep {
		r.mute--
	}
	return rep
}

func (r *renderer) column(e Expr, star bool) {
	_, rep, _ := r.site("column", 0, "")
	if rep {
		// a qualified column keeps its qualifier: t1.id generalises to t1.%%COLUMN%% (backup.t1.id to backup.t1.%%COLUMN%%)
		if c, ok := e.(Col); ok && !star && strings.Contains(c.Name, ".") {
			t := r.colText(c.Name) // the qualifier stays spelled out: its occurrence is registered outside the muted part
			r.raw(t[:strings.LastIndex(t, ".")+1] + "%%COLUMN%%")
			return
		}
		r.raw("%%COLUMN%%")
		r.mute++
	}
	if star {
		if so, ok := e.(starOf); ok {
			r.raw(r.nameLoose(so.tbl, "star-qualifier", so.alone) + ".*")
		} else {
			r.p("*")
		}
	} else {
		r.expr(e)
	}
	if rep {
		r.mute--
	}
}

func (r *renderer) sel(s *Select) {
	r.kw("select")
	if s.Distinct {
		r.kw("distinct")
	}
	for i, c := range s.Cols {
		if i > 0 {
			r.p(",")
		}
		if c.Star && c.StarOf != "" {
			r.column(starOf{c.StarOf, len(s.Cols) == 1}, true)
		} else {
			r.column(c.E, c.Star)
		}
		if c.As != "" {
			r.kw("as")
			r.raw(c.As)
		}
	}
	if len(s.From) > 0 {
		r.kw("from")
		for i, t := range s.From {
			if i > 0 {
				r.p(",")
			}
			r.tref(t)
		}
	}
	// Acra's TestConfigurationProvider documents that %%WHERE%% also stands for whatever follows the WHERE clause
	// of that SELECT: literals after a generalised WHERE are "shadowed"
	if r.where(s.Where) {
		r.shadowN++
		defer func() { r.shadowN-- }()
	}
	defer func(c string) { r.clause = c }(r.clause)
	if len(s.GroupBy) > 0 {
		r.kw("group by")
		for i, g := range s.GroupBy {
			if i > 0 {
				r.p(",")
			}
			r.column(g, false)
		}
	}
	if s.Having != nil {
		r.clause = "having"
		r.kw("having")
		r.expr(s.Having)
	}
	if len(s.OrderBy) > 0 {
		r.kw("order by")
		for i, o := range s.OrderBy {
			if i > 0 {
				r.p(",")
			}
			r.column(o.E, false)
			if o.Dir != "" {
				r.kw(o.Dir)
			}
		}
	}
	if s.Limit != nil {
		r.clause = "limit"
		r.kw("limit")
		r.value(*s.Limit)
		if n := len(r.sites); n > 0 && r.sites[n-1].Kind == "value" {
			r.sites[n-1].Int = true
		}
	}
}

func (r *renderer) stmt(n interface{}) {
	switch x := n.(type) {
	case *Select:
		r.sel(x)
	case *Union:
		r.sel(x.L)
		r.kw("union")
		if x.All {
			r.kw("all")
		}
		r.sel(x.R)
	case *Insert:
		if x.Replace {
			r.kw("replace into")
		} else {
			r.kw("insert into")
		}
		n := r.name(x.Table, "insert-into")
		r.table(n)
		r.raw(n)
		if len(x.Cols) > 0 {
			r.p("(")
			for i, c := range x.Cols {
				if i > 0 {
					r.p(",")
				}
				r.raw(c)
			}
			r.p(")")
		}
		if x.Sel != nil {
			r.depth++
			r.sel(x.Sel)
			r.depth--
			return
		}
		r.kw("values")
		r.clause = "values"
		for i, row := range x.Rows {
			if i > 0 {
				r.p(",")
			}
			r.p("(")
			for j, v := range row {
				if j > 0 {
					r.p(",")
				}
				r.value(v)
			}
			r.p(")")
		}
	case *Update:
		r.kw("update")
		n := r.name(x.Table, "update")
		r.table(n)
		r.raw(n)
		r.kw("set")
		r.clause = "set"
		for i, s := range x.Sets {
			if i > 0 {
				r.p(",")
			}
			r.raw(r.colText(s.Col))
			r.p("=")
			r.value(s.Val)
		}
		r.where(x.Where)
	case *Delete:
		r.kw("delete from")
		n := r.name(x.Table, "delete-from")
		r.table(n)
		r.raw(n)
		r.where(x.Where)
	default:
		panic("censorgen: unknown statement node")
	}
}

func (s *Stmt) renderer(mask Mask, pattern bool) *renderer {
	r := &renderer{mask: mask, pattern: pattern, covered: map[int]bool{}, shadow: map[int]bool{}, feat: map[string]bool{}, used: map[string]bool{}, over: s.Over,
		occCovered: map[int]bool{}}
	if s.Qual != nil {
		r.qual = s.Qual.At
	}
	return r
}

func feats(m map[string]bool) string {
	f := []string{}
	for k := range m {
		f = append(f, k)
	}
	if len(f) == 0 {
		return "plain"
	}
	sort.Strings(f)
	return strings.Join(f, "+")
}

func uniq(in []string) []string {
	m := map[string]bool{}
	out := []string{}
	for _, s := range in {
		if !m[s] {
			m[s] = true
			out = append(out, s)
		}
	}
	sort.Strings(out)
	return out
}

// Finish fills the by-construction facts (tables, sites, canonical text) of a statement.
func (s *Stmt) Finish() {
	r := s.renderer(nil, false)
	r.stmt(s.Node)
	s.Direct = uniq(r.direct)
	d := map[string]bool{}
	for _, t := range s.Direct {
		d[t] = true
	}
	s.Sub = nil
	for _, t := range uniq(r.sub) {
		if !d[t] {
			s.Sub = append(s.Sub, t)
		}
	}
	s.DerivedFrom = r.derived
	s.Sites = r.sites
	s.Occs = r.occs
	s.Canon = Join1(r.out)
}

// Tokens returns the statement's token sequence.
func (s *Stmt) Tokens() []Tok {
	r := s.renderer(nil, false)
	r.stmt(s.Node)
	return r.out
}

// Join1 renders tokens canonically: lower-case keywords, single spaces.
func Join1(toks []Tok) string {
	parts := make([]string, len(toks))
	for i, t := range toks {
		parts[i] = t.S
	}
	return strings.Join(parts, " ")
}

// Pattern is a firewall pattern derived from a statement.
type Pattern struct {
	Text    string
	SrcID   int
	Whole   bool         // the whole statement was replaced by its %%KIND%% placeholder
	Gen     []string     // sorted kinds of generalisation actually used ("none" if the pattern is the statement itself)
	Covered map[int]bool // value sites of the source hidden by the generalisation
	Shadow  map[int]bool // value sites standing after a generalised WHERE of their SELECT (not decided)
	Expr    string       // expression forms (case-else, cast, interval) the pattern still spells out, "plain" if none
	Mask    Mask
	// OccCovered: name occurrences of the source (Stmt.Occs) the pattern does not spell out
	OccCovered map[int]bool
}

// WholePlaceholder returns the top-level placeholder for a statement kind.
func WholePlaceholder(kind string) string {
	return "%%" + strings.ToUpper(kind) + "%%"
}

// Derive renders the pattern obtained from s by generalising the sites in mask.
func (s *Stmt) Derive(mask Mask) Pattern {
	r := s.renderer(mask, true)
	r.stmt(s.Node)
	gen := []string{}
	for k := range r.used {
		gen = append(gen, k)
	}
	sort.Strings(gen)
	if len(gen) == 0 {
		gen = []string{"none"}
	}
	return Pattern{Text: Join1(r.out), SrcID: s.ID, Gen: gen, Covered: r.covered, Shadow: r.shadow, Expr: feats(r.feat), Mask: mask, OccCovered: r.occCovered}
}

// DeriveWhole returns the %%SELECT%% / %%INSERT%% / ... pattern of the statement's kind.
func (s *Stmt) DeriveWhole() Pattern {
	cov := map[int]bool{}
	for i, st := range s.Sites {
		if st.Kind == "value" {
			cov[i] = true
		}
	}
	return Pattern{Text: WholePlaceholder(s.Kind), SrcID: s.ID, Whole: true, Gen: []string{"whole"}, Covered: cov, Expr: "plain"}
}
