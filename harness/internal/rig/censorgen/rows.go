package censorgen

// Row-count relatives of INSERT ... VALUES statements: the same statement with VALUES rows appended / prepended /
// removed. Siblings and cousins never differ from their source in the NUMBER of rows, and a pattern derived from a
// statement has exactly the statement's rows, so without these relatives no pattern ever meets a statement with
// another row count.

// RowRel says how a statement was made from an INSERT ... VALUES statement by changing its list of rows.
type RowRel struct {
	Of   int    // ID of the statement this one was made from
	Kind string // one of RowRelKinds
	// Extra is the added row (nil for the "removed" kinds)
	Extra []Expr
	// At is the index of the added / removed row in the resulting / original row list
	At int
}

// RowRelKinds lists the ways a relative's rows differ from its source's.
var RowRelKinds = []string{
	"copy-appended",   // a copy of the last row appended: every row of the relative equals a row of the source
	"other-appended",  // a row appended whose literals all differ from the literals of every source row in the same column
	"other-prepended", // the same row put in front of the source's rows
	"other-inserted",  // the same row put between the source's rows (sources with >= 2 rows)
	"wider-appended",  // a row with one value more than the source's rows appended
	"last-removed",    // the last row removed (sources with >= 2 rows)
	"first-removed",   // the first row removed (sources with >= 2 rows)
}

// valuesRows returns the VALUES rows of an INSERT ... VALUES statement with the statement's literal overrides
// (siblings) applied, plus the value-site index of every position (-1: not a literal, e.g. now()).
func (s *Stmt) valuesRows() (in *Insert, rows [][]Expr, sites [][]int) {
	in, ok := s.Node.(*Insert)
	if !ok || in.Sel != nil || len(in.Rows) == 0 {
		return nil, nil, nil
	}
	n := 0
	for _, row := range in.Rows {
		r, st := []Expr{}, []int{}
		for _, v := range row {
			if l, ok := v.(Lit); ok {
				if o, ok := s.Over[n]; ok {
					l = o
				}
				r, st = append(r, l), append(st, n)
				n++
			} else {
				r, st = append(r, v), append(st, -1)
			}
		}
		rows, sites = append(rows, r), append(sites, st)
	}
	return in, rows, sites
}

// IsInsertValues tells whether the statement is an INSERT / REPLACE with a VALUES list.
func (s *Stmt) IsInsertValues() bool {
	in, _, _ := s.valuesRows()
	return in != nil
}

// NRows is the number of VALUES rows (0 for other statements).
func (s *Stmt) NRows() int {
	_, rows, _ := s.valuesRows()
	return len(rows)
}

// RowRelatives builds the row-count relatives of an INSERT ... VALUES statement (nil for other statements). The
// relatives get no ID; the caller numbers them and calls FixVariants.
func (g *G) RowRelatives(s *Stmt) []*Stmt {
	in, rows, _ := s.valuesRows()
	if in == nil {
		return nil
	}
	width := len(rows[0])
	// the "other" row: at every position a literal spelled differently from the literal of every source row there
	other := make([]Expr, width)
	for j := 0; j < width; j++ {
		used := map[string]bool{}
		for _, r := range rows {
			if l, ok := r[j].(Lit); ok {
				used[l.Text] = true
			}
		}
		for {
			l := g.lit()
			if !used[l.Text] {
				other[j] = l
				break
			}
		}
	}
	wider := append(append([]Expr{}, other...), Lit{Text: g.pick(intLits)})
	cp := func(r []Expr) []Expr { return append([]Expr{}, r...) }
	mk := func(kind string, at int, extra []Expr, nr [][]Expr) *Stmt {
		node := &Insert{Replace: in.Replace, Table: in.Table, Cols: in.Cols, Rows: nr}
		st := &Stmt{Kind: s.Kind, Shape: "insert-rows", Node: node, BaseID: -1, CousinOf: -1, Rows: &RowRel{Of: s.ID, Kind: kind, Extra: extra, At: at}}
		st.Finish()
		return st
	}
	with := func(at int, row []Expr) [][]Expr {
		nr := [][]Expr{}
		for i := 0; i <= len(rows); i++ {
			if i == at {
				nr = append(nr, cp(row))
			}
			if i < len(rows) {
				nr = append(nr, cp(rows[i]))
			}
		}
		return nr
	}
	without := func(at int) [][]Expr {
		nr := [][]Expr{}
		for i, r := range rows {
			if i != at {
				nr = append(nr, cp(r))
			}
		}
		return nr
	}
	last := rows[len(rows)-1]
	out := []*Stmt{
		mk("copy-appended", len(rows), cp(last), with(len(rows), last)),
		mk("other-appended", len(rows), other, with(len(rows), other)),
		mk("other-prepended", 0, other, with(0, other)),
		mk("wider-appended", len(rows), wider, with(len(rows), wider)),
	}
	if len(rows) >= 2 {
		out = append(out,
			mk("other-inserted", 1, other, with(1, other)),
			mk("last-removed", len(rows)-1, nil, without(len(rows)-1)),
			mk("first-removed", 0, nil, without(0)))
	}
	return out
}

// RowVerdict is what the documented pattern semantics say about a pattern derived from an INSERT ... VALUES statement
// and a row-count relative of that statement (or the other way round).
type RowVerdict int

const (
	RowsNoMatch   RowVerdict = iota // certain: the pattern does not describe this statement
	RowsUndecided                   // no documented promise
)

// RowRelation decides pattern p (derived from src) against statement s when one of the two was made from the other by
// changing the list of VALUES rows. ok is false when the two are not related that way. Only what is certain is decided:
//   - a pattern without placeholders is one statement, and a statement with another list of rows is another one;
//   - a statement with a row that matches NO row of the pattern is not described by the pattern, wherever the row
//     stands: the row has another number of values than every pattern row, or every pattern row still spells out at
//     least one literal and the extra row has another literal in that column.
//
// Everything else (a generalised pattern against a statement whose additional rows each match a pattern row, or that
// lacks rows of the pattern) is not promised by any documentation or test of Acra.
func (p *Pattern) RowRelation(src, s *Stmt) (v RowVerdict, rel string, ok bool) {
	placeholderFree := len(p.Gen) == 1 && p.Gen[0] == "none"
	switch {
	case s.Rows != nil && s.Rows.Of == src.ID:
		// the statement is a relative of the pattern's source
		k := s.Rows.Kind
		switch k {
		case "wider-appended":
			return RowsNoMatch, "rows:extra-row-of-other-width", true
		case "other-appended", "other-prepended", "other-inserted":
			if placeholderFree {
				return RowsNoMatch, "rows:" + k + ":pattern-without-placeholders", true
			}
			if p.everyRowKeepsALiteral(src) {
				return RowsNoMatch, "rows:extra-row-matching-no-pattern-row:" + k, true
			}
			return RowsUndecided, "rows-extra-row-vs-fully-generalised-row", true
		default: // copy-appended, last-removed, first-removed
			if placeholderFree {
				return RowsNoMatch, "rows:" + k + ":pattern-without-placeholders", true
			}
			return RowsUndecided, "rows-" + k + "-with-generalisation", true
		}
	case src.Rows != nil && src.Rows.Of == s.ID:
		// the pattern was derived from a relative of the statement
		if placeholderFree {
			return RowsNoMatch, "rows:pattern-of-" + src.Rows.Kind + ":pattern-without-placeholders", true
		}
		return RowsUndecided, "rows-pattern-of-" + src.Rows.Kind + "-with-generalisation", true
	case src.Rows != nil && s.Rows != nil && src.Rows.Of == s.Rows.Of:
		return RowsUndecided, "rows-two-relatives-of-one-statement", true
	}
	return RowsUndecided, "", false
}

// everyRowKeepsALiteral: every VALUES row of the pattern (derived from src) still spells out at least one literal.
func (p *Pattern) everyRowKeepsALiteral(src *Stmt) bool {
	_, _, sites := src.valuesRows()
	if len(sites) == 0 {
		return false
	}
	for _, row := range sites {
		kept := false
		for _, idx := range row {
			if idx >= 0 && !p.Covered[idx] {
				kept = true
			}
		}
		if !kept {
			return false
		}
	}
	return true
}
