package censorgen

// Schema-/database-qualified names. A statement names tables in FROM, JOIN, INSERT INTO, UPDATE, DELETE FROM and in
// sub-selects, and qualifies columns and stars with table names (t1.id, t1.*). Every such place is a name OCCURRENCE
// (Stmt.Occs, numbered in rendering order). A qualified RELATIVE of a statement is the same statement with a chosen subset
// of its occurrences spelled with a schema / database qualifier (backup.t1, backup.t1.id, backup.t1.*): the relatives of one
// statement share its Node and differ only in QualRel.At, the way siblings differ only in one literal. Patterns derived from a
// relative carry the relative's qualifiers. Whether a pattern derived from one member of such a family describes another
// member is known by construction: compare the qualifiers occurrence by occurrence, leaving out the occurrences the pattern
// does not spell out (Pattern.OccCovered: under %%SUBQUERY%% / %%WHERE%% / %%COLUMN%%, or after a generalised WHERE).

import (
	"sort"
	"strings"
)

// Occ is one place where a statement spells a table name.
type Occ struct {
	Class string // from | join | insert-into | update | delete-from | subselect-from | column-qualifier | star-qualifier
	Base  string // the table name without qualifier
	Depth int    // > 0: inside a sub-select (incl. the SELECT of INSERT ... SELECT)
	// Loose: Acra documents that a pattern whose select list is a single star stands for any select list; the qualifier of
	// such a star is never compared
	Loose bool
}

// IsTable tells whether the occurrence names a table (and not the qualifier of a column or star).
func (o Occ) IsTable() bool { return o.Class != "column-qualifier" && o.Class != "star-qualifier" }

// Schemas are the qualifiers used by relatives.
var Schemas = []string{"backup", "arch_2"}

// QualRel says how a statement was made from a pool statement by qualifying name occurrences.
type QualRel struct {
	Of   int            // ID of the unqualified statement of the family
	Kind string         // one of QualKinds
	At   map[int]string // occurrence index -> schema qualifier
}

// QualKinds lists the ways a relative is qualified.
var QualKinds = []string{
	"tables",              // every table name (all clauses, all depths) under one schema; column qualifiers as they were
	"tables-other-schema", // the same under another schema
	"tables+columns",      // every table name and every column / star qualifier
	"columns",             // only the column / star qualifiers
	"direct-tables",       // only the tables of the statement's own FROM / target (statements that also have sub-selects)
	"sub-tables",          // only the tables inside sub-selects
	"one-table",           // only the last table of the statement's own FROM (joins, comma lists)
	"one-column",          // only the first column qualifier
	"mixed-schemas",       // first table under one schema, the other tables under another
}

type starOf struct {
	tbl   string
	alone bool
}

var isTableName = func() map[string]bool {
	m := map[string]bool{}
	for _, t := range Tables {
		m[t] = true
	}
	return m
}()

func (r *renderer) fromClass() string {
	switch {
	case r.depth > 0:
		return "subselect-from"
	case r.joinN > 0:
		return "join"
	}
	return "from"
}

// name registers a name occurrence and returns its spelling (with the schema qualifier the statement gives it).
func (r *renderer) name(base, class string) string { return r.nameLoose(base, class, false) }

func (r *renderer) nameLoose(base, class string, loose bool) string {
	idx := len(r.occs)
	r.occs = append(r.occs, Occ{Class: class, Base: base, Depth: r.depth, Loose: loose})
	if r.mute > 0 || r.shadowN > 0 {
		r.occCovered[idx] = true
	}
	if q := r.qual[idx]; q != "" {
		return q + "." + base
	}
	return base
}

// colText spells a column reference; the qualifier of t1.id is a name occurrence when t1 is a table (not an alias).
func (r *renderer) colText(n string) string {
	i := strings.LastIndex(n, ".")
	if i < 0 || !isTableName[n[:i]] {
		return n
	}
	return r.name(n[:i], "column-qualifier") + n[i:]
}

// QualAt is the schema qualifier occurrence i is spelled with ("" = none).
func (s *Stmt) QualAt(i int) string {
	if s.Qual == nil {
		return ""
	}
	return s.Qual.At[i]
}

// Family is the ID of the unqualified statement this one is a qualified relative of (its own ID for other statements).
func (s *Stmt) Family() int {
	if s.Qual != nil {
		return s.Qual.Of
	}
	return s.ID
}

// BaseName strips a schema qualifier from a table name as recorded in Stmt.Direct / Stmt.Sub.
func BaseName(t string) string { return t[strings.LastIndex(t, ".")+1:] }

// QualRelatives builds the qualified relatives of an (unqualified) statement; relatives get no ID, the caller numbers
// them and calls FixVariants. Relatives with the same text as an earlier one are left out.
func (g *G) QualRelatives(s *Stmt) []*Stmt {
	if s.Qual != nil || len(s.Occs) == 0 {
		return nil
	}
	a, b := Schemas[0], Schemas[1]
	if g.chance(1, 2) {
		a, b = b, a
	}
	var tabs, cols, direct, sub []int
	for i, o := range s.Occs {
		switch {
		case !o.IsTable():
			cols = append(cols, i)
		case o.Depth > 0:
			sub = append(sub, i)
			tabs = append(tabs, i)
		default:
			direct = append(direct, i)
			tabs = append(tabs, i)
		}
	}
	at := func(schema string, idx ...[]int) map[int]string {
		m := map[int]string{}
		for _, l := range idx {
			for _, i := range l {
				m[i] = schema
			}
		}
		return m
	}
	cand := []QualRel{}
	add := func(kind string, m map[int]string) {
		if len(m) > 0 {
			cand = append(cand, QualRel{Of: s.ID, Kind: kind, At: m})
		}
	}
	add("tables", at(a, tabs))
	add("tables-other-schema", at(b, tabs))
	if len(cols) > 0 {
		add("tables+columns", at(a, tabs, cols))
		add("columns", at(a, cols))
	}
	if len(sub) > 0 && len(direct) > 0 {
		add("direct-tables", at(a, direct))
		add("sub-tables", at(a, sub))
	}
	if len(direct) > 1 {
		add("one-table", at(a, direct[len(direct)-1:]))
	}
	if len(cols) > 1 {
		add("one-column", at(a, cols[:1]))
	}
	if len(tabs) > 1 {
		m := at(b, tabs[1:])
		m[tabs[0]] = a
		add("mixed-schemas", m)
	}
	seen := map[string]bool{s.Canon: true}
	out := []*Stmt{}
	for i := range cand {
		q := cand[i]
		st := &Stmt{Kind: s.Kind, Shape: s.Shape, Node: s.Node, BaseID: -1, CousinOf: -1, Over: s.Over, Qual: &q}
		st.Finish()
		if seen[st.Canon] {
			continue
		}
		seen[st.Canon] = true
		out = append(out, st)
	}
	return out
}

// QualBases generates statements with table-qualified columns and stars in every clause that compares them
// (select list incl. "t1.*" next to other expressions and alone, WHERE, ON, GROUP BY / ORDER BY, UPDATE ... SET t1.a = ...,
// DELETE ... WHERE t1.a ..., INSERT ... SELECT t2.id ...): the pool spells such columns only in joins. They are bases of
// families like pool statements (no ID; the caller numbers them).
func (g *G) QualBases(n int) []*Stmt {
	seen := map[string]bool{}
	out := []*Stmt{}
	shapes := []string{"select-star-of", "select-star-of-alone", "select-qualcols", "update-qualcols", "delete-qualcols", "insert-select-qualcols", "join-star-of"}
	for tries := 0; len(out) < n && tries < n*20; tries++ {
		shape := shapes[tries%len(shapes)]
		st := &Stmt{Shape: shape, BaseID: -1, CousinOf: -1}
		t := g.pick(Tables)
		switch shape {
		case "select-star-of":
			s := &Select{From: []TableRef{TName{Name: t}}, Cols: []SelExpr{{Star: true, StarOf: t}, {E: g.col(t)}}}
			if g.chance(2, 3) {
				s.Where = g.cond(2, t)
			}
			g.tail(s, t)
			st.Kind, st.Node = "select", s
		case "select-star-of-alone":
			s := &Select{From: []TableRef{TName{Name: t}}, Cols: []SelExpr{{Star: true, StarOf: t}}}
			if g.chance(2, 3) {
				s.Where = g.cond(2, t)
			}
			st.Kind, st.Node = "select", s
		case "select-qualcols":
			s := &Select{From: []TableRef{TName{Name: t}}}
			g.selectCols(s, t)
			if g.chance(4, 5) {
				s.Where = g.cond(2, t)
			}
			g.tail(s, t)
			st.Kind, st.Node = "select", s
		case "join-star-of":
			a, b := g.two()
			s := &Select{From: []TableRef{Join{Kind: g.pick([]string{"join", "left join"}), L: TName{Name: a}, R: TName{Name: b},
				On: Cmp{Op: "=", L: Col{Name: a + ".id"}, R: Col{Name: b + ".id"}}}},
				Cols: []SelExpr{{Star: true, StarOf: a}, {E: g.col(b)}}}
			if g.chance(1, 2) {
				s.Cols = append(s.Cols, SelExpr{Star: true, StarOf: b})
			}
			if g.chance(2, 3) {
				s.Where = g.cond(2, b)
			}
			st.Kind, st.Node = "select", s
		case "update-qualcols":
			u := &Update{Table: t}
			p := g.R.Perm(len(columns))
			ns := 1 + g.R.Intn(2)
			for i := 0; i < ns; i++ {
				c := columns[p[i]]
				if g.chance(2, 3) {
					c = t + "." + c
				}
				u.Sets = append(u.Sets, SetExpr{Col: c, Val: g.lit()})
			}
			u.Where = g.cond(1, t)
			st.Kind, st.Node = "update", u
		case "delete-qualcols":
			st.Kind, st.Node = "delete", &Delete{Table: t, Where: g.cond(1, t)}
		default: // insert-select-qualcols
			a, b := g.two()
			st.Kind, st.Node = "insert", &Insert{Table: a, Cols: []string{"id", "a"}, Sel: &Select{Cols: []SelExpr{{E: Col{Name: b + ".id"}}, {E: Col{Name: b + ".a"}}},
				From: []TableRef{TName{Name: b}}, Where: g.pred(2, b)}}
		}
		st.Finish()
		if seen[st.Canon] {
			continue
		}
		seen[st.Canon] = true
		out = append(out, st)
	}
	return out
}

// QualVerdict is what is certain about a pattern derived from one member of a family and another member of it.
type QualVerdict int

const (
	// QualOtherSchema: somewhere the pattern spells a name under one schema and the statement the same name under another
	// schema: another table under every reading
	QualOtherSchema QualVerdict = iota
	// QualOneSideUnqualified: somewhere exactly one of the two spells a qualifier (pattern "t1" / statement "backup.t1" or
	// the other way round): the pattern does not describe the statement
	QualOneSideUnqualified
	// QualOnlyUnderPlaceholder: the two differ only where the pattern spells nothing out
	QualOnlyUnderPlaceholder
)

// QualRelation compares pattern p (derived from src) with statement s of the same family occurrence by occurrence. ok is
// false when the two are not different members of one family. rel names the first deciding difference:
// "<what>:<clause of the occurrence>".
func (p *Pattern) QualRelation(src, s *Stmt) (v QualVerdict, rel string, ok bool) {
	if src.ID == s.ID || src.Family() != s.Family() || (src.Qual == nil && s.Qual == nil) || len(src.Occs) != len(s.Occs) {
		return 0, "", false
	}
	hard, soft, covered := []string{}, []string{}, 0
	for i, o := range src.Occs {
		qp, qs := src.QualAt(i), s.QualAt(i)
		switch {
		case qp == qs:
		case p.OccCovered[i] || o.Loose:
			covered++
		case qp != "" && qs != "":
			hard = append(hard, "other-schema:"+o.Class)
		case qp == "":
			soft = append(soft, "unqualified-in-pattern-qualified-in-statement:"+o.Class)
		default:
			soft = append(soft, "qualified-in-pattern-unqualified-in-statement:"+o.Class)
		}
	}
	switch {
	case len(hard) > 0:
		sort.Strings(hard)
		return QualOtherSchema, "qual:" + hard[0], true
	case len(soft) > 0:
		sort.Strings(soft)
		return QualOneSideUnqualified, "qual:" + soft[0], true
	}
	return QualOnlyUnderPlaceholder, "qual-difference-only-under-placeholder", true
}
