package censorgen

import (
	"fmt"
	"math/rand"
	"strings"
)

// Tables is the universe of table names used by statements and table rules.
var Tables = []string{"t1", "t2", "t3", "accounts", "orders", "Users"}

// AbsentTables are never used by any statement (table rules naming them match nothing).
var AbsentTables = []string{"zz_none", "audit_log"}

var columns = []string{"id", "a", "b", "c", "qty", "title"}

var strLits = []string{"'abc'", "'O''Neil'", "'x;y'", "'two words'", "''", "'Pa%'", "'SELECT'", "'2004-05-07'"}
var intLits = []string{"0", "1", "7", "42", "100500"}
var otherLits = []string{"1.5", "0.25", "X'1F'", "0x2A"}

// G is a seeded statement generator.
type G struct {
	R *rand.Rand
}

func (g *G) pick(xs []string) string { return xs[g.R.Intn(len(xs))] }
func (g *G) chance(n, d int) bool    { return g.R.Intn(d) < n }

func (g *G) lit() Lit {
	switch g.R.Intn(10) {
	case 0, 1, 2, 3:
		return Lit{Text: g.pick(strLits)}
	case 4, 5, 6:
		return Lit{Text: g.pick(intLits)}
	case 7:
		return Lit{Text: g.pick(otherLits)}
	case 8:
		return Lit{Text: "null", Kw: true}
	default:
		return Lit{Text: g.pick([]string{"true", "false"}), Kw: true}
	}
}

// otherLit returns a literal spelled differently from l.
func (g *G) otherLit(l string) Lit {
	for {
		n := g.lit()
		if n.Text != l {
			return n
		}
	}
}

func (g *G) col(q string) Col {
	c := g.pick(columns)
	if q != "" {
		return Col{Name: q + "." + c}
	}
	return Col{Name: c}
}

func (g *G) simpleSelect(tbl string) *Select {
	s := &Select{From: []TableRef{TName{Name: tbl}}}
	n := 1 + g.R.Intn(2)
	for i := 0; i < n; i++ {
		s.Cols = append(s.Cols, SelExpr{E: g.col("")})
	}
	if g.chance(2, 3) {
		s.Where = Cmp{Op: g.pick([]string{"=", ">", "<"}), L: g.col(""), R: g.lit()}
	}
	return s
}

func (g *G) pred(depth int, q string) Expr {
	k := g.R.Intn(11)
	if depth >= 2 && k >= 8 {
		k = g.R.Intn(8)
	}
	if g.chance(1, 12) { // expression forms that have a comparator of their own in Acra's pattern matcher
		switch g.R.Intn(3) {
		case 0:
			c := Case{Cond: Cmp{Op: "=", L: g.col(q), R: Lit{Text: g.pick(intLits)}}, Then: Lit{Text: g.pick(intLits)}}
			if g.chance(2, 3) {
				c.Else = Lit{Text: g.pick(strLits)}
			}
			return Cmp{Op: "=", L: g.col(q), R: c}
		case 1:
			return Cmp{Op: "=", L: g.col(q), R: Cast{E: g.col(q), Type: g.pick([]string{"char", "signed", "char(10)"})}}
		default:
			return Cmp{Op: "<", L: g.col(q), R: DateAdd{E: g.col(q), N: g.pick([]string{"1", "7"}), Unit: g.pick([]string{"day", "hour"})}}
		}
	}
	switch k {
	case 0, 1, 2:
		return Cmp{Op: g.pick([]string{"=", "<", ">", "<=", ">=", "!="}), L: g.col(q), R: g.lit()}
	case 3:
		return Cmp{Op: "like", L: g.col(q), R: Lit{Text: g.pick(strLits)}}
	case 4:
		n := 1 + g.R.Intn(4)
		in := In{L: g.col(q), Not: g.chance(1, 4)}
		for i := 0; i < n; i++ {
			in.List = append(in.List, g.lit())
		}
		return in
	case 5:
		return Between{L: g.col(q), From: Lit{Text: g.pick(intLits)}, To: Lit{Text: g.pick(intLits)}}
	case 6:
		return IsNull{L: g.col(q), Not: g.chance(1, 2)}
	case 7:
		return Cmp{Op: "=", L: g.col(q), R: g.col(q)}
	case 8:
		return InSub{L: g.col(q), Not: g.chance(1, 4), Sub: g.simpleSelect(g.pick(Tables))}
	case 9:
		return CmpSub{Op: g.pick([]string{"=", ">"}), L: g.col(q), Sub: g.simpleSelect(g.pick(Tables))}
	default:
		return Exists{Sub: g.simpleSelect(g.pick(Tables))}
	}
}

func (g *G) cond(depth int, q string) Expr {
	e := g.pred(depth, q)
	for i := 0; i < 2 && g.chance(1, 3); i++ {
		r := g.pred(depth, q)
		op := g.pick([]string{"and", "or"})
		if g.chance(1, 4) {
			e = Logic{Op: op, L: Paren{E: e}, R: r}
		} else {
			e = Logic{Op: op, L: e, R: r}
		}
	}
	return e
}

func (g *G) selectCols(s *Select, q string) {
	switch g.R.Intn(6) {
	case 0:
		s.Cols = []SelExpr{{Star: true}}
	case 1:
		s.Cols = []SelExpr{{E: Func{Name: g.pick([]string{"count", "max", "sum"}), Args: []Expr{g.col(q)}}}}
	case 2:
		s.Cols = []SelExpr{{E: Func{Name: "count", Star: true}}, {E: g.col(q)}}
	default:
		n := 1 + g.R.Intn(3)
		for i := 0; i < n; i++ {
			c := SelExpr{E: g.col(q)}
			if g.chance(1, 6) {
				c.As = g.pick([]string{"x1", "val", "r"})
			}
			s.Cols = append(s.Cols, c)
		}
	}
}

func (g *G) tail(s *Select, q string) {
	if g.chance(1, 5) {
		s.GroupBy = []Expr{g.col(q)}
		if g.chance(1, 2) {
			s.Having = Cmp{Op: ">", L: Func{Name: "count", Args: []Expr{g.col(q)}}, R: Lit{Text: g.pick(intLits)}}
		}
	}
	if g.chance(1, 3) {
		n := 1 + g.R.Intn(2)
		for i := 0; i < n; i++ {
			s.OrderBy = append(s.OrderBy, Order{E: g.col(q), Dir: g.pick([]string{"", "asc", "desc"})})
		}
	}
	if g.chance(1, 4) {
		s.Limit = &Lit{Text: g.pick([]string{"1", "10", "100"})}
	}
}

func (g *G) two() (string, string) {
	a := g.R.Intn(len(Tables))
	b := (a + 1 + g.R.Intn(len(Tables)-1)) % len(Tables)
	return Tables[a], Tables[b]
}

// Statement generates one statement of the requested shape.
func (g *G) Statement(shape string) *Stmt {
	st := &Stmt{Shape: shape, BaseID: -1, CousinOf: -1}
	switch shape {
	case "select":
		s := &Select{From: []TableRef{TName{Name: g.pick(Tables)}}, Distinct: g.chance(1, 8)}
		if g.chance(1, 5) {
			s.From[0] = TName{Name: s.From[0].(TName).Name, As: "x"}
		}
		g.selectCols(s, "")
		if g.chance(4, 5) {
			s.Where = g.cond(2, "")
		}
		g.tail(s, "")
		st.Kind, st.Node = "select", s
	case "select-notable":
		st.Kind, st.Node = "select", &Select{Cols: []SelExpr{{E: Lit{Text: g.pick(intLits)}}}}
	case "select-join":
		a, b := g.two()
		s := &Select{}
		on := Cmp{Op: "=", L: Col{Name: a + ".id"}, R: Col{Name: b + ".id"}}
		switch g.R.Intn(5) {
		case 0:
			s.From = []TableRef{TName{Name: a}, TName{Name: b}}
		case 1:
			s.From = []TableRef{Join{Kind: g.pick([]string{"join", "inner join", "left join"}), L: TName{Name: a}, R: TName{Name: b}, On: on}}
		case 2:
			s.From = []TableRef{ParenT{Items: []TableRef{TName{Name: a}, TName{Name: b}}}}
		case 3:
			s.From = []TableRef{ParenT{Items: []TableRef{Join{Kind: "inner join", L: TName{Name: a}, R: TName{Name: b}, On: on}}}}
		default:
			c := g.pick(Tables)
			s.From = []TableRef{Join{Kind: "join", L: Join{Kind: "left join", L: TName{Name: a}, R: TName{Name: b}, On: on}, R: TName{Name: c, As: "j3"},
				On: Cmp{Op: "=", L: Col{Name: "j3.id"}, R: Col{Name: a + ".id"}}}}
		}
		g.selectCols(s, a)
		if g.chance(3, 4) {
			s.Where = g.cond(2, a)
		}
		g.tail(s, a)
		st.Kind, st.Node = "select", s
	case "select-sub":
		s := &Select{From: []TableRef{TName{Name: g.pick(Tables)}}}
		g.selectCols(s, "")
		var e Expr
		switch g.R.Intn(3) {
		case 0:
			e = InSub{L: g.col(""), Sub: g.simpleSelect(g.pick(Tables))}
		case 1:
			e = CmpSub{Op: "=", L: g.col(""), Sub: g.simpleSelect(g.pick(Tables))}
		default:
			e = Exists{Sub: g.simpleSelect(g.pick(Tables))}
		}
		if g.chance(1, 2) {
			e = Logic{Op: "and", L: g.pred(2, ""), R: e}
		}
		s.Where = e
		g.tail(s, "")
		st.Kind, st.Node = "select", s
	case "select-derived":
		s := &Select{From: []TableRef{Derived{Sub: g.simpleSelect(g.pick(Tables)), As: "d"}}}
		if g.chance(1, 2) {
			s.From = append(s.From, TName{Name: g.pick(Tables)})
		}
		g.selectCols(s, "")
		if g.chance(1, 2) {
			s.Where = g.cond(2, "")
		}
		st.Kind, st.Node = "select", s
	case "union":
		a, b := g.two()
		if g.chance(1, 4) {
			b = a
		}
		st.Kind, st.Node = "union", &Union{L: g.simpleSelect(a), R: g.simpleSelect(b), All: g.chance(1, 3)}
	case "insert":
		in := &Insert{Table: g.pick(Tables), Replace: g.chance(1, 8)}
		n := 1 + g.R.Intn(3)
		if g.chance(3, 4) {
			p := g.R.Perm(len(columns))
			for i := 0; i < n; i++ {
				in.Cols = append(in.Cols, columns[p[i]])
			}
		}
		rows := 1
		if g.chance(1, 4) {
			rows = 2
		}
		for i := 0; i < rows; i++ {
			row := []Expr{}
			for j := 0; j < n; j++ {
				if g.chance(1, 10) {
					row = append(row, Func{Name: "now"})
				} else {
					row = append(row, g.lit())
				}
			}
			in.Rows = append(in.Rows, row)
		}
		st.Kind, st.Node = "insert", in
	case "insert-select":
		a, b := g.two()
		st.Kind, st.Node = "insert", &Insert{Table: a, Cols: []string{"id", "a"}, Sel: &Select{Cols: []SelExpr{{E: Col{Name: "id"}}, {E: Col{Name: "a"}}},
			From: []TableRef{TName{Name: b}}, Where: g.pred(2, "")}}
	case "update":
		u := &Update{Table: g.pick(Tables)}
		n := 1 + g.R.Intn(2)
		p := g.R.Perm(len(columns))
		for i := 0; i < n; i++ {
			u.Sets = append(u.Sets, SetExpr{Col: columns[p[i]], Val: g.lit()})
		}
		if g.chance(5, 6) {
			u.Where = g.cond(1, "")
		}
		st.Kind, st.Node = "update", u
	case "delete":
		d := &Delete{Table: g.pick(Tables)}
		if g.chance(5, 6) {
			d.Where = g.cond(1, "")
		}
		st.Kind, st.Node = "delete", d
	default:
		panic("censorgen: unknown shape " + shape)
	}
	st.Finish()
	return st
}

// Shapes lists statement shapes with their weights in a pool.
var Shapes = []struct {
	Name string
	W    int
}{
	{"select", 6}, {"select-join", 4}, {"select-sub", 3}, {"select-derived", 1}, {"select-notable", 1},
	{"union", 3}, {"insert", 5}, {"insert-select", 1}, {"update", 4}, {"delete", 4},
}

// Pool generates n distinct statements (by canonical text) plus, for some of them, a sibling that differs in
// exactly one literal. IDs are the indexes in the returned slice.
func (g *G) Pool(n int) []*Stmt {
	total := 0
	for _, s := range Shapes {
		total += s.W
	}
	seen := map[string]bool{}
	pool := []*Stmt{}
	add := func(st *Stmt) bool {
		if seen[st.Canon] {
			return false
		}
		seen[st.Canon] = true
		st.ID = len(pool)
		pool = append(pool, st)
		return true
	}
	for tries := 0; len(pool) < n && tries < n*20; tries++ {
		x := g.R.Intn(total)
		shape := ""
		for _, s := range Shapes {
			if x < s.W {
				shape = s.Name
				break
			}
			x -= s.W
		}
		st := g.Statement(shape)
		if !add(st) {
			continue
		}
		// sibling: same statement, one literal changed
		vs := []int{}
		for i, s := range st.Sites {
			if s.Kind == "value" {
				vs = append(vs, i)
			}
		}
		if len(vs) > 0 && len(pool) < n && g.chance(1, 3) {
			site := vs[g.R.Intn(len(vs))]
			nl := g.otherLit(st.Sites[site].Text)
			if st.Sites[site].Int {
				nl = Lit{Text: "5"}
			}
			sib := &Stmt{Kind: st.Kind, Shape: st.Shape, Node: st.Node, BaseID: st.ID, CousinOf: -1, ChangedSite: site, Over: map[int]Lit{site: nl}}
			sib.Finish()
			add(sib)
		} else if sel, ok := st.Node.(*Select); ok && sel.Where != nil && len(pool) < n && g.chance(1, 4) {
			// cousin: the same SELECT without its WHERE clause (a different statement over the same tables)
			c := *sel
			c.Where = nil
			cz := &Stmt{Kind: st.Kind, Shape: st.Shape, Node: &c, BaseID: -1, CousinOf: st.ID}
			cz.Finish()
			add(cz)
		}
	}
	return pool
}

// RandomMask picks a subset of the statement's sites to generalise. Only documented placements are used:
// %%VALUE%% for literals, %%LIST_OF_VALUES%% for (a tail of) an IN list, %%COLUMN%% for select / GROUP BY /
// ORDER BY expressions, %%WHERE%% for a WHERE clause, %%SUBQUERY%% for a sub-select.
func (g *G) RandomMask(s *Stmt) Mask {
	m := Mask{}
	if len(s.Sites) == 0 {
		return m
	}
	switch g.R.Intn(5) {
	case 0: // the statement itself
		return m
	case 1: // every site of one kind
		k := s.Sites[g.R.Intn(len(s.Sites))].Kind
		for i, st := range s.Sites {
			if st.Kind == k {
				m[i] = 0
			}
		}
	default:
		for i := range s.Sites {
			if g.chance(1, 3) {
				m[i] = 0
			}
		}
	}
	for i := range m {
		if s.Sites[i].Kind == "list" && s.Sites[i].N > 1 && g.chance(1, 2) {
			m[i] = 1 + g.R.Intn(s.Sites[i].N-1) // keep 1..N-1 leading elements, generalise the tail
		}
	}
	return m
}

// ---- formatting variants ----

// NVariants is the number of formatting variants of a statement.
const NVariants = 6

// VariantNames names the variants.
var VariantNames = []string{"canonical", "upper+semicolon", "mixedcase+wide-whitespace", "leading-comment+tight", "trailing-comment+padding", "upper+comments+semicolon"}

func caseOf(w string, mode int, r *rand.Rand) string {
	switch mode {
	case 1:
		return strings.ToUpper(w)
	case 2:
		b := []byte(w)
		for i := range b {
			if r.Intn(2) == 0 {
				b[i] = strings.ToUpper(string(b[i]))[0]
			}
		}
		return string(b)
	}
	return w
}

// Format renders a token sequence in formatting variant v (0..NVariants-1). The result differs from the
// canonical rendering only in keyword case, insignificant whitespace, a trailing semicolon and margin comments.
func Format(toks []Tok, v int, seed int64) string {
	r := rand.New(rand.NewSource(seed*7919 + int64(v)))
	kwMode, wide, tight := 0, false, false
	lead, trail, semi := "", "", false
	switch v {
	case 1:
		kwMode, semi = 1, true
	case 2:
		kwMode, wide = 2, true
	case 3:
		lead, tight = "/* margin: lead */ ", true
	case 4:
		lead, trail = "  \t", " /* margin: trail */  "
	case 5:
		kwMode, wide, semi = 1, true, true
		lead, trail = "/* a */ /* b */\n", " /* done */"
	}
	ws := func() string {
		if !wide {
			return " "
		}
		return []string{" ", "  ", "\t", "\n", " \n  ", "\t "}[r.Intn(6)]
	}
	var b strings.Builder
	b.WriteString(lead)
	for i, t := range toks {
		if i > 0 {
			prev := toks[i-1]
			if !(tight && (t.P || prev.P)) {
				b.WriteString(ws())
			}
		}
		if t.K {
			b.WriteString(caseOf(t.S, kwMode, r))
		} else {
			b.WriteString(t.S)
		}
	}
	if semi {
		b.WriteString(";")
	}
	b.WriteString(trail)
	return b.String()
}

// Variant renders formatting variant v of the statement (FixVariants makes this a lookup).
func (s *Stmt) Variant(v int) string {
	if s.variants != nil {
		return s.variants[v]
	}
	return Format(s.Tokens(), v, int64(s.ID)+1)
}

// FixVariants renders all formatting variants once; call it after the statement's ID is final.
func (s *Stmt) FixVariants() {
	s.variants = nil
	vs := make([]string, NVariants)
	for v := range vs {
		vs[v] = s.Variant(v)
	}
	s.variants = vs
}

// Unparseable returns strings that are not SQL statements under any reading: token soup, truncated statements,
// unbalanced parentheses, unterminated strings. (DDL-looking prefixes are avoided: Acra's parser tolerates
// partially parsed DDL by design.)
func (g *G) Unparseable(pool []*Stmt, n int) []string {
	fixed := []string{
		"qwerty", "qwerty_xxx", "select * from x )))(((unparsable query", "Insert into something", "select from where",
		"update set", "selec a from t1", "delete t1 where", "(((", "select a from t1 where", "insert into t1 values (",
		"select 'unterminated from t1", "select a,, b from t1", "select a from t1 where b = = 1", "update t1 set where id = 1",
	}
	out := []string{}
	p := g.R.Perm(len(fixed))
	for i := 0; i < len(fixed) && len(out) < (n+1)/2; i++ {
		out = append(out, fixed[p[i]])
	}
	for len(out) < n {
		s := pool[g.R.Intn(len(pool))]
		switch g.R.Intn(4) {
		case 0:
			out = append(out, s.Canon+" )))(((")
		case 1:
			out = append(out, "zz "+s.Canon)
		case 2:
			out = append(out, s.Canon+" 'open")
		default:
			out = append(out, fmt.Sprintf("(%s", s.Canon))
		}
	}
	return out
}
