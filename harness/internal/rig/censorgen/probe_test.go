package censorgen

import (
	"fmt"
	"io"
	"math/rand"
	"sort"
	"strings"
	"testing"

	acracensor "github.com/cossacklabs/acra/acra-censor"
	"github.com/cossacklabs/acra/sqlparser"
	"github.com/sirupsen/logrus"
)

func denyPattern(p string) (*acracensor.AcraCensor, error) {
	c := acracensor.NewAcraCensor()
	cfg := fmt.Sprintf("version: 0.85.0\nhandlers:\n  - handler: deny\n    patterns:\n      - %q\n", p)
	return c, c.LoadConfiguration([]byte(cfg))
}

func TestProbe(t *testing.T) {
	logrus.SetOutput(io.Discard)
	g := &G{R: rand.New(rand.NewSource(1))}
	pool := g.Pool(400)
	parser := sqlparser.New(sqlparser.ModeStrict)
	for i := 0; i < 25; i++ {
		fmt.Println(pool[i].Kind, pool[i].Shape, pool[i].Direct, pool[i].Sub, "|", pool[i].Canon)
	}
	for v := 0; v < NVariants; v++ {
		fmt.Printf("V%d: %q\n", v, pool[3].Variant(v))
	}
	fails := map[string]int{}
	ex := map[string]string{}
	for _, s := range pool {
		for v := 0; v < NVariants; v++ {
			_, _, _, err := parser.HandleRawSQLQuery(s.Variant(v))
			if err != nil {
				k := fmt.Sprintf("parse-fail %s v%d", s.Shape, v)
				fails[k]++
				ex[k] = s.Variant(v)
			}
		}
		n0, _, _, _ := parser.HandleRawSQLQuery(s.Variant(0))
		for v := 1; v < NVariants; v++ {
			n, _, _, _ := parser.HandleRawSQLQuery(s.Variant(v))
			if n != n0 {
				k := fmt.Sprintf("norm-differs %s v%d", s.Shape, v)
				fails[k]++
				ex[k] = s.Variant(v) + " => " + n + " VS " + n0
			}
		}
		for k := 0; k < 6; k++ {
			var p Pattern
			if k == 0 {
				p = s.DeriveWhole()
			} else {
				p = s.Derive(g.RandomMask(s))
			}
			c, err := denyPattern(p.Text)
			if err != nil {
				key := fmt.Sprintf("pattern-load-fail %s gen=%s", s.Kind, strings.Join(p.Gen, "+"))
				fails[key]++
				ex[key] = p.Text
				continue
			}
			if c.HandleQuery(s.Canon) == nil {
				key := fmt.Sprintf("self-nomatch %s gen=%s", s.Kind, strings.Join(p.Gen, "+"))
				fails[key]++
				ex[key] = p.Text + "   <=   " + s.Canon
			} else {
				fails["ok self-match "+s.Kind]++
			}
			c.ReleaseAll()
		}
	}
	keys := []string{}
	for k := range fails {
		keys = append(keys, k)
	}
	sort.Strings(keys)
	for _, k := range keys {
		fmt.Println(fails[k], k, "  e.g.", ex[k])
	}
	for _, u := range g.Unparseable(pool, 30) {
		if _, err := parser.Parse(u); err == nil {
			fmt.Println("PARSED junk:", u)
		}
	}
}
