package censorgen

import (
	"fmt"
	"io"
	"testing"

	"github.com/sirupsen/logrus"
)

func TestProbe2(t *testing.T) {
	logrus.SetOutput(io.Discard)
	try := func(p, q string) {
		defer func() {
			if r := recover(); r != nil {
				fmt.Printf("PANIC pattern=%q query=%q: %v\n", p, q, r)
			}
		}()
		c, err := denyPattern(p)
		if err != nil {
			fmt.Println("load fail", p, err)
			return
		}
		fmt.Printf("%-18v pattern=%q query=%q\n", c.HandleQuery(q), p, q)
	}
	self := []string{
		"select a from t where not (b = 1)",
		"select a from t where b = -1",
		"select a from t where b + 1 > 2",
		"select a from t where substr(b, 1, 2) = 'x'",
		"select substr(b, 1, 2) from t",
		"select a from t where b = 'x' collate utf8_bin",
		"select a from t where match(b) against ('x')",
		"select group_concat(a) from t",
		"select a from t where b is true",
		"select a from t where b = case when c = 1 then 2 end",
		"select a from t where b = case c when 1 then 2 else 3 end",
		"select case when c = 1 then 2 else 3 end from t",
		"select a from t where b = cast(c as char)",
		"select a from t where b = convert(c, char(10))",
		"select a from t where b = convert(c using utf8)",
		"select a from t where b = date_add(c, interval 1 day)",
		"select a from t where b like 'x%' escape '!'",
		"select a from t where b regexp 'x'",
		"select a from t where (b, c) = (1, 2)",
		"select a from t where b = ?",
		"select a from t where b = :v1",
		"select a from t where b = $1",
		"select a from t where b in (1, 2) limit 10 offset 5",
		"select a from t for update",
		"select a from t use index (i1) where b = 1",
		"select a from t1 natural join t2",
		"select a from t1 join t2 using (id)",
		"select a from t1 straight_join t2 on t1.id = t2.id",
		"select a from db1.t1 where b = 1",
		"select `a` from `t1` where `b` = 1",
		"select a from t where b = 1 group by a having max(c) > 1 order by a desc limit 3",
		"insert into t (a) values (1) on duplicate key update a = values(a)",
		"insert into t (a) values (default)",
		"insert ignore into t (a) values (1)",
		"update t set a = a + 1 where b = 1 order by a limit 2",
		"delete from t where b = 1 order by a limit 2",
		"update t1, t2 set t1.a = 1 where t1.id = t2.id",
		"delete t1 from t1 join t2 on t1.id = t2.id where t2.b = 1",
		"(select a from t1) union (select a from t2) order by a limit 1",
		"select a from t1 union select a from t2 union select a from t3",
		"insert into t (a) values (1) returning id",
		"select a from t where b between 1 and 2 and c not between 3 and 4",
		"select distinct a from t",
		"select sql_no_cache a from t",
		"select count(distinct a) from t",
		"select a from t where b = true and c = null and d is not null",
	}
	for _, s := range self {
		try(s, s)
	}
}
