package fakeredis

import (
	"fmt"
	"os"
	"testing"
	"time"

	"github.com/cossacklabs/acra/keystore/filesystem"
	"github.com/cossacklabs/acra/keystore/v2/keystore/filesystem/backend"
	"github.com/go-redis/redis/v7"
)

func TestClientBasics(t *testing.T) {
	s := Start()
	defer s.Close()
	c := redis.NewClient(&redis.Options{Addr: s.Addr(), DB: 2})
	defer c.Close()
	if err := c.Ping().Err(); err != nil {
		t.Fatal(err)
	}
	if ok, err := c.SetNX("a/b", "1", 0).Result(); err != nil || !ok {
		t.Fatal(ok, err)
	}
	if ok, err := c.SetNX("a/b", "2", 0).Result(); err != nil || ok {
		t.Fatal(ok, err)
	}
	if ok, err := c.SetNX("lock", "x", 10*time.Second).Result(); err != nil || !ok {
		t.Fatal(ok, err)
	}
	if ok, err := c.SetNX("lock", "x", 10*time.Second).Result(); err != nil || ok {
		t.Fatal(ok, err)
	}
	s.AdvanceClock(11 * time.Second)
	if ok, err := c.SetNX("lock", "x", 10*time.Second).Result(); err != nil || !ok {
		t.Fatal("expired lock", ok, err)
	}
	if _, err := c.Get("zz").Result(); err != redis.Nil {
		t.Fatal(err)
	}
	if ok, err := c.SetXX("zz", "v", 0).Result(); err != nil || ok {
		t.Fatal(ok, err)
	}
	for i := 0; i < 57; i++ {
		c.Set(fmt.Sprintf("dir/k%02d", i), "v", 0)
		c.Set(fmt.Sprintf("other/k%02d", i), "v", 0)
	}
	var cur uint64
	seen := map[string]bool{}
	pages := 0
	for {
		ks, next, err := c.Scan(cur, "dir/*", 10).Result()
		if err != nil {
			t.Fatal(err)
		}
		pages++
		for _, k := range ks {
			if seen[k] {
				t.Fatal("dup", k)
			}
			seen[k] = true
		}
		cur = next
		if cur == 0 {
			break
		}
	}
	if len(seen) != 57 || pages < 10 {
		t.Fatal(len(seen), pages)
	}
	if err := c.Rename("nokey", "x").Err(); err == nil || err.Error() != "ERR no such key" {
		t.Fatal(err)
	}
	if ok, err := c.RenameNX("dir/k00", "dir/k01").Result(); err != nil || ok {
		t.Fatal(ok, err)
	}
	vals, err := c.MGet("dir/k00", "nope").Result()
	if err != nil || vals[0] != "v" || vals[1] != nil {
		t.Fatal(vals, err)
	}
	if s.Unknown() != 0 {
		t.Fatal("unknown commands")
	}
	if _, ok := s.Get(2, "a/b"); !ok {
		t.Fatal("db selection")
	}
}

func TestAcraStorages(t *testing.T) {
	s := Start()
	defer s.Close()
	st, err := filesystem.NewRedisStorage(s.Addr(), "", 0, nil)
	if err != nil {
		t.Fatal(err)
	}
	if err := st.WriteFile("keys/a", []byte("hello"), 0600); err != nil {
		t.Fatal(err)
	}
	b, err := st.ReadFile("keys/a")
	if err != nil || string(b) != "hello" {
		t.Fatal(b, err)
	}
	if _, err := st.ReadFile("keys/none"); !os.IsNotExist(err) {
		t.Fatal(err)
	}
	fi, err := st.Stat("keys")
	if err != nil || !fi.IsDir() {
		t.Fatal(fi, err)
	}
	be, err := backend.CreateRedisBackend(&backend.RedisConfig{Options: &redis.Options{Addr: s.Addr(), DB: 1}, RootDir: "root"})
	if err != nil {
		t.Fatal(err)
	}
	if err := be.Lock(); err != nil {
		t.Fatal(err)
	}
	if err := be.Put("ring/x", []byte{1, 2, 3}); err != nil {
		t.Fatal(err)
	}
	if err := be.Put("ring/x", []byte{1}); err == nil {
		t.Fatal("second put")
	}
	if err := be.Unlock(); err != nil {
		t.Fatal(err)
	}
	l, err := be.ListAll()
	if err != nil || len(l) != 1 || l[0] != "ring/x" {
		t.Fatal(l, err)
	}
	// fault hook: fail the 2nd command from now
	n := 0
	s.SetHook(func(c *Cmd) Action {
		n++
		if n == 2 {
			return DropAfter
		}
		return Proceed
	})
	if err := st.WriteFile("keys/b", []byte("x"), 0600); err != nil {
		t.Fatal(err)
	}
	err = st.WriteFile("keys/c", []byte("y"), 0600)
	if err == nil {
		t.Fatal("expected error from dropped connection")
	}
	s.SetHook(nil)
	if _, ok := s.Get(0, "keys/c"); !ok {
		t.Fatal("DropAfter must apply the command")
	}
	if _, err := st.ReadFile("keys/c"); err != nil {
		t.Fatal("client must reconnect:", err)
	}
	if s.Unknown() != 0 {
		t.Fatal("unknown commands")
	}
}

func TestMatch(t *testing.T) {
	cases := []struct {
		p, s string
		m    bool
	}{{"a/*", "a/b/c", true}, {"a/*", "a", false}, {"a/*", "a/", true}, {"a?c", "abc", true}, {"a[bc]d", "acd", true}, {"a[^bc]d", "acd", false},
		{"a[a-c]d", "abd", true}, {"a\\*b", "a*b", true}, {"a\\*b", "axb", false}, {"*", "", true}, {"tokens:*", "tokens:xyz", true}, {"", "", true}, {"", "a", false}}
	for _, c := range cases {
		if Match(c.p, c.s) != c.m {
			t.Errorf("Match(%q,%q) != %v", c.p, c.s, c.m)
		}
	}
}
