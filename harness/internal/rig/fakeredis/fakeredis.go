// Package fakeredis is a small in-process Redis server (RESP2 over loopback TCP) for the Redis-backed
// key storage (keystore v1 RedisStorage, keystore v2 RedisBackend) and the Redis token store.
//
// It implements, with the documented semantics of Redis 5/6, exactly the commands those components (through
// go-redis v7) issue: PING ECHO AUTH SELECT GET SET(EX|PX|NX|XX) MSET SETNX SETEX PSETEX MGET DEL UNLINK EXISTS STRLEN
// RENAME RENAMENX SCAN KEYS TTL PTTL EXPIRE PEXPIRE PERSIST DBSIZE FLUSHDB FLUSHALL TYPE. Anything else is
// answered with "-ERR unknown command" and counted (a monitor that sees a non-zero count treats the run as
// rig-inconclusive: the stand-in does not cover what Acra asked for).
//
// Fidelity points that matter to the monitors:
//   - every command is atomic and commands of all connections are totally ordered (one server lock), as in Redis;
//   - SCAN examines COUNT keys of the WHOLE keyspace per call and applies MATCH afterwards, so a page may be empty
//     while the cursor is non-zero (documented behaviour). The iteration runs over a snapshot taken at cursor 0, in
//     a key-hash order; keys present during the whole iteration are therefore returned, as Redis guarantees;
//   - key expiry runs on a virtual clock that only moves with AdvanceClock (no wall clock in any verdict);
//   - glob patterns follow Redis' stringmatchlen (* ? [set] [^set] [a-z] and backslash escapes; '*' matches '/').
//
// Observation and fault injection: every command is appended to a log (Log) with its reply class, and a hook
// (SetHook) decides per command, under the server lock and before execution, whether it proceeds, is answered
// with an error without being applied, or whether the connection is dropped before or after it is applied.
package fakeredis

import (
	"bufio"
	"crypto/sha256"
	"encoding/binary"
	"fmt"
	"io"
	"net"
	"sort"
	"strconv"
	"strings"
	"sync"
	"time"
)

// Action is what the hook wants done with a command.
type Action int

const (
	// Proceed executes the command normally.
	Proceed Action = iota
	// FailBefore answers "-ERR injected" and does not apply the command.
	FailBefore
	// DropBefore closes the connection without applying the command (the client sees EOF).
	DropBefore
	// DropAfter applies the command and closes the connection instead of answering (effect took place, client sees EOF).
	DropAfter
)

// Cmd is one received command.
type Cmd struct {
	Seq     int      // global sequence number (total order of execution)
	Conn    int      // connection id
	DB      int      // selected database of the connection
	Name    string   // upper-case command name
	Args    []string // arguments (values included; callers must not print them into signatures)
	Mutates bool     // the command can change the dataset
	Action  Action   // what was done with it
	Reply   string   // reply class: "ok", "int:<n>", "nil", "bulk", "array:<n>", "err:<text>", "dropped"
}

type entry struct {
	val      string
	expireAt int64 // virtual ms; 0 = none
}

// Server is one fake Redis instance.
type Server struct {
	ln       net.Listener
	mu       sync.Mutex
	dbs      map[int]map[string]*entry
	now      int64 // virtual clock, ms
	seq      int
	connSeq  int
	log      []Cmd
	logOn    bool
	hook     func(c *Cmd) Action
	unknown  int
	password string
	cursors  map[uint64]*scanState
	nextCur  uint64
	conns    map[int]net.Conn
	closed   bool
	wg       sync.WaitGroup
	// ScanSalt changes the SCAN iteration order (bucket order of a real server is not specified).
	ScanSalt uint64
}

type scanState struct {
	db   int
	keys []string
	pos  int
}

// Start listens on a loopback port.
func Start() *Server {
	ln, err := net.Listen("tcp", "127.0.0.1:0")
	if err != nil {
		panic(err)
	}
	s := &Server{ln: ln, dbs: map[int]map[string]*entry{}, now: 1, cursors: map[uint64]*scanState{}, conns: map[int]net.Conn{}, logOn: true}
	s.wg.Add(1)
	go s.acceptLoop()
	return s
}

// Addr is host:port of the listener.
func (s *Server) Addr() string { return s.ln.Addr().String() }

// Close stops the listener and all connections.
func (s *Server) Close() {
	s.mu.Lock()
	if s.closed {
		s.mu.Unlock()
		return
	}
	s.closed = true
	for _, c := range s.conns {
		c.Close()
	}
	s.mu.Unlock()
	s.ln.Close()
	s.wg.Wait()
}

// SetPassword makes AUTH mandatory.
func (s *Server) SetPassword(p string) { s.mu.Lock(); s.password = p; s.mu.Unlock() }

// SetHook installs the per-command decision function (nil removes it). It runs under the server lock.
func (s *Server) SetHook(h func(c *Cmd) Action) { s.mu.Lock(); s.hook = h; s.mu.Unlock() }

// SetLogging switches command recording.
func (s *Server) SetLogging(on bool) { s.mu.Lock(); s.logOn = on; s.mu.Unlock() }

// Log returns a copy of the recorded commands.
func (s *Server) Log() []Cmd {
	s.mu.Lock()
	defer s.mu.Unlock()
	return append([]Cmd(nil), s.log...)
}

// LogLen is the number of recorded commands.
func (s *Server) LogLen() int { s.mu.Lock(); defer s.mu.Unlock(); return len(s.log) }

// LogSince returns the commands recorded from index n on.
func (s *Server) LogSince(n int) []Cmd {
	s.mu.Lock()
	defer s.mu.Unlock()
	if n > len(s.log) {
		n = len(s.log)
	}
	return append([]Cmd(nil), s.log[n:]...)
}

// ResetLog forgets the recorded commands.
func (s *Server) ResetLog() { s.mu.Lock(); s.log = nil; s.mu.Unlock() }

// Seq is the number of commands executed or refused so far.
func (s *Server) Seq() int { s.mu.Lock(); defer s.mu.Unlock(); return s.seq }

// Unknown is the number of commands the stand-in does not implement that were received.
func (s *Server) Unknown() int { s.mu.Lock(); defer s.mu.Unlock(); return s.unknown }

// AdvanceClock moves the virtual clock (key expiry).
func (s *Server) AdvanceClock(d time.Duration) {
	s.mu.Lock()
	s.now += d.Milliseconds()
	s.mu.Unlock()
}

// Data is a dataset snapshot: db -> key -> value (expiry times kept aside).
type Data struct {
	DBs    map[int]map[string]string
	Expire map[int]map[string]int64
	Now    int64
}

// Snapshot copies the dataset (expired keys left out).
func (s *Server) Snapshot() Data {
	s.mu.Lock()
	defer s.mu.Unlock()
	d := Data{DBs: map[int]map[string]string{}, Expire: map[int]map[string]int64{}, Now: s.now}
	for n, db := range s.dbs {
		m := map[string]string{}
		e := map[string]int64{}
		for k, v := range db {
			if v.expireAt != 0 && v.expireAt <= s.now {
				continue
			}
			m[k] = v.val
			if v.expireAt != 0 {
				e[k] = v.expireAt
			}
		}
		d.DBs[n] = m
		d.Expire[n] = e
	}
	return d
}

// Restore replaces the dataset.
func (s *Server) Restore(d Data) {
	s.mu.Lock()
	defer s.mu.Unlock()
	s.dbs = map[int]map[string]*entry{}
	for n, db := range d.DBs {
		m := map[string]*entry{}
		for k, v := range db {
			m[k] = &entry{val: v, expireAt: d.Expire[n][k]}
		}
		s.dbs[n] = m
	}
	if d.Now > s.now {
		s.now = d.Now
	}
	s.cursors = map[uint64]*scanState{}
}

// StartWith starts a server holding a copy of d.
func StartWith(d Data) *Server { s := Start(); s.Restore(d); return s }

// Keys returns db's live keys, sorted.
func (s *Server) Keys(db int) []string {
	d := s.Snapshot()
	var out []string
	for k := range d.DBs[db] {
		out = append(out, k)
	}
	sort.Strings(out)
	return out
}

// Get reads one key straight from the dataset.
func (s *Server) Get(db int, key string) (string, bool) {
	s.mu.Lock()
	defer s.mu.Unlock()
	e := s.lookup(db, key)
	if e == nil {
		return "", false
	}
	return e.val, true
}

// Put writes one key straight into the dataset (tampering, stale leftovers).
func (s *Server) Put(db int, key, val string) {
	s.mu.Lock()
	defer s.mu.Unlock()
	s.db(db)[key] = &entry{val: val}
}

// Delete removes one key straight from the dataset.
func (s *Server) Delete(db int, key string) {
	s.mu.Lock()
	defer s.mu.Unlock()
	delete(s.db(db), key)
}

// DropConnections closes every open client connection (clients reconnect on their next command).
func (s *Server) DropConnections() {
	s.mu.Lock()
	for _, c := range s.conns {
		c.Close()
	}
	s.mu.Unlock()
}

func (s *Server) db(n int) map[string]*entry {
	m := s.dbs[n]
	if m == nil {
		m = map[string]*entry{}
		s.dbs[n] = m
	}
	return m
}

func (s *Server) lookup(db int, key string) *entry {
	e := s.db(db)[key]
	if e == nil {
		return nil
	}
	if e.expireAt != 0 && e.expireAt <= s.now {
		delete(s.db(db), key)
		return nil
	}
	return e
}

func (s *Server) acceptLoop() {
	defer s.wg.Done()
	for {
		c, err := s.ln.Accept()
		if err != nil {
			return
		}
		s.mu.Lock()
		if s.closed {
			s.mu.Unlock()
			c.Close()
			return
		}
		s.connSeq++
		id := s.connSeq
		s.conns[id] = c
		s.mu.Unlock()
		s.wg.Add(1)
		go s.serve(id, c)
	}
}

type connState struct {
	id     int
	db     int
	authed bool
}

func (s *Server) serve(id int, c net.Conn) {
	defer s.wg.Done()
	defer func() {
		c.Close()
		s.mu.Lock()
		delete(s.conns, id)
		s.mu.Unlock()
	}()
	r := bufio.NewReader(c)
	w := bufio.NewWriter(c)
	st := &connState{id: id}
	for {
		argv, err := readCommand(r)
		if err != nil {
			return
		}
		if len(argv) == 0 {
			continue
		}
		reply, drop := s.exec(st, argv)
		if drop {
			return
		}
		w.WriteString(reply)
		if r.Buffered() == 0 {
			if err := w.Flush(); err != nil {
				return
			}
		}
	}
}

func readCommand(r *bufio.Reader) ([]string, error) {
	line, err := r.ReadString('\n')
	if err != nil {
		return nil, err
	}
	line = strings.TrimRight(line, "\r\n")
	if line == "" {
		return nil, nil
	}
	if line[0] != '*' {
		return strings.Fields(line), nil // inline command
	}
	n, err := strconv.Atoi(line[1:])
	if err != nil || n < 0 || n > 1<<20 {
		return nil, fmt.Errorf("bad array header")
	}
	argv := make([]string, 0, n)
	for i := 0; i < n; i++ {
		h, err := r.ReadString('\n')
		if err != nil {
			return nil, err
		}
		h = strings.TrimRight(h, "\r\n")
		if len(h) == 0 || h[0] != '$' {
			return nil, fmt.Errorf("bad bulk header")
		}
		l, err := strconv.Atoi(h[1:])
		if err != nil || l < 0 || l > 512<<20 {
			return nil, fmt.Errorf("bad bulk length")
		}
		buf := make([]byte, l+2)
		if _, err := io.ReadFull(r, buf); err != nil {
			return nil, err
		}
		argv = append(argv, string(buf[:l]))
	}
	return argv, nil
}

var mutating = map[string]bool{"SET": true, "MSET": true, "SETNX": true, "SETEX": true, "PSETEX": true, "DEL": true, "UNLINK": true, "RENAME": true,
	"RENAMENX": true, "EXPIRE": true, "PEXPIRE": true, "PERSIST": true, "FLUSHDB": true, "FLUSHALL": true}

func bulk(v string) string     { return "$" + strconv.Itoa(len(v)) + "\r\n" + v + "\r\n" }
func integer(n int) string     { return ":" + strconv.Itoa(n) + "\r\n" }
func errReply(m string) string { return "-" + m + "\r\n" }

const nilBulk = "$-1\r\n"
const okReply = "+OK\r\n"

func replyClass(r string) string {
	switch {
	case r == okReply:
		return "ok"
	case r == nilBulk:
		return "nil"
	case strings.HasPrefix(r, ":"):
		return "int:" + strings.TrimSpace(r[1:])
	case strings.HasPrefix(r, "-"):
		return "err:" + strings.TrimSpace(r[1:])
	case strings.HasPrefix(r, "$"):
		return "bulk"
	case strings.HasPrefix(r, "*"):
		return "array:" + strings.TrimSpace(r[1:strings.Index(r, "\r")])
	case strings.HasPrefix(r, "+"):
		return "status:" + strings.TrimSpace(r[1:])
	}
	return "?"
}

func (s *Server) exec(st *connState, argv []string) (reply string, drop bool) {
	s.mu.Lock()
	defer s.mu.Unlock()
	name := strings.ToUpper(argv[0])
	args := argv[1:]
	s.seq++
	c := Cmd{Seq: s.seq, Conn: st.id, DB: st.db, Name: name, Args: append([]string(nil), args...), Mutates: mutating[name]}
	act := Proceed
	if s.hook != nil {
		act = s.hook(&c)
	}
	c.Action = act
	switch act {
	case FailBefore:
		reply = errReply("ERR injected failure")
	case DropBefore:
		drop = true
	default:
		reply = s.apply(st, name, args)
		if act == DropAfter {
			drop = true
		}
	}
	if drop {
		c.Reply = "dropped"
		if act == DropAfter {
			c.Reply = "dropped-after:" + replyClass(reply)
		}
	} else {
		c.Reply = replyClass(reply)
	}
	if s.logOn {
		s.log = append(s.log, c)
	}
	return reply, drop
}

func wrongArgs(name string) string {
	return errReply("ERR wrong number of arguments for '" + strings.ToLower(name) + "' command")
}

func (s *Server) apply(st *connState, name string, a []string) string {
	if s.password != "" && !st.authed && name != "AUTH" && name != "PING" {
		return errReply("NOAUTH Authentication required.")
	}
	db := st.db
	switch name {
	case "PING":
		if len(a) == 1 {
			return bulk(a[0])
		}
		return "+PONG\r\n"
	case "ECHO":
		if len(a) != 1 {
			return wrongArgs(name)
		}
		return bulk(a[0])
	case "AUTH":
		if len(a) < 1 {
			return wrongArgs(name)
		}
		if s.password == "" {
			return errReply("ERR Client sent AUTH, but no password is set")
		}
		if a[len(a)-1] != s.password {
			return errReply("WRONGPASS invalid username-password pair")
		}
		st.authed = true
		return okReply
	case "SELECT":
		if len(a) != 1 {
			return wrongArgs(name)
		}
		n, err := strconv.Atoi(a[0])
		if err != nil || n < 0 || n > 15 {
			return errReply("ERR DB index is out of range")
		}
		st.db = n
		return okReply
	case "GET":
		if len(a) != 1 {
			return wrongArgs(name)
		}
		if e := s.lookup(db, a[0]); e != nil {
			return bulk(e.val)
		}
		return nilBulk
	case "STRLEN":
		if len(a) != 1 {
			return wrongArgs(name)
		}
		if e := s.lookup(db, a[0]); e != nil {
			return integer(len(e.val))
		}
		return integer(0)
	case "TYPE":
		if len(a) != 1 {
			return wrongArgs(name)
		}
		if e := s.lookup(db, a[0]); e != nil {
			return "+string\r\n"
		}
		return "+none\r\n"
	case "MGET":
		if len(a) < 1 {
			return wrongArgs(name)
		}
		var b strings.Builder
		b.WriteString("*" + strconv.Itoa(len(a)) + "\r\n")
		for _, k := range a {
			if e := s.lookup(db, k); e != nil {
				b.WriteString(bulk(e.val))
			} else {
				b.WriteString(nilBulk)
			}
		}
		return b.String()
	case "SET":
		if len(a) < 2 {
			return wrongArgs(name)
		}
		var nx, xx, keepTTL bool
		var exp int64
		for i := 2; i < len(a); i++ {
			switch strings.ToUpper(a[i]) {
			case "NX":
				nx = true
			case "XX":
				xx = true
			case "KEEPTTL":
				keepTTL = true
			case "EX", "PX":
				if i+1 >= len(a) {
					return errReply("ERR syntax error")
				}
				n, err := strconv.ParseInt(a[i+1], 10, 64)
				if err != nil {
					return errReply("ERR value is not an integer or out of range")
				}
				if n <= 0 {
					return errReply("ERR invalid expire time in set")
				}
				if strings.ToUpper(a[i]) == "EX" {
					n *= 1000
				}
				exp = s.now + n
				i++
			default:
				return errReply("ERR syntax error")
			}
		}
		if nx && xx {
			return errReply("ERR syntax error")
		}
		old := s.lookup(db, a[0])
		if (nx && old != nil) || (xx && old == nil) {
			return nilBulk
		}
		e := &entry{val: a[1], expireAt: exp}
		if keepTTL && old != nil && exp == 0 {
			e.expireAt = old.expireAt
		}
		s.db(db)[a[0]] = e
		return okReply
	case "MSET":
		if len(a) < 2 || len(a)%2 != 0 {
			return wrongArgs(name)
		}
		for i := 0; i < len(a); i += 2 {
			s.db(db)[a[i]] = &entry{val: a[i+1]}
		}
		return okReply
	case "SETNX":
		if len(a) != 2 {
			return wrongArgs(name)
		}
		if s.lookup(db, a[0]) != nil {
			return integer(0)
		}
		s.db(db)[a[0]] = &entry{val: a[1]}
		return integer(1)
	case "SETEX", "PSETEX":
		if len(a) != 3 {
			return wrongArgs(name)
		}
		n, err := strconv.ParseInt(a[1], 10, 64)
		if err != nil {
			return errReply("ERR value is not an integer or out of range")
		}
		if n <= 0 {
			return errReply("ERR invalid expire time in " + strings.ToLower(name))
		}
		if name == "SETEX" {
			n *= 1000
		}
		s.db(db)[a[0]] = &entry{val: a[2], expireAt: s.now + n}
		return okReply
	case "DEL", "UNLINK":
		if len(a) < 1 {
			return wrongArgs(name)
		}
		n := 0
		for _, k := range a {
			if s.lookup(db, k) != nil {
				delete(s.db(db), k)
				n++
			}
		}
		return integer(n)
	case "EXISTS":
		if len(a) < 1 {
			return wrongArgs(name)
		}
		n := 0
		for _, k := range a {
			if s.lookup(db, k) != nil {
				n++
			}
		}
		return integer(n)
	case "RENAME", "RENAMENX":
		if len(a) != 2 {
			return wrongArgs(name)
		}
		e := s.lookup(db, a[0])
		if e == nil {
			return errReply("ERR no such key")
		}
		if name == "RENAMENX" {
			if a[0] != a[1] && s.lookup(db, a[1]) != nil {
				return integer(0)
			}
			if a[0] == a[1] {
				return integer(0)
			}
			delete(s.db(db), a[0])
			s.db(db)[a[1]] = e
			return integer(1)
		}
		if a[0] != a[1] {
			delete(s.db(db), a[0])
			s.db(db)[a[1]] = e
		}
		return okReply
	case "EXPIRE", "PEXPIRE":
		if len(a) != 2 {
			return wrongArgs(name)
		}
		n, err := strconv.ParseInt(a[1], 10, 64)
		if err != nil {
			return errReply("ERR value is not an integer or out of range")
		}
		e := s.lookup(db, a[0])
		if e == nil {
			return integer(0)
		}
		if name == "EXPIRE" {
			n *= 1000
		}
		if n <= 0 {
			delete(s.db(db), a[0])
			return integer(1)
		}
		e.expireAt = s.now + n
		return integer(1)
	case "PERSIST":
		if len(a) != 1 {
			return wrongArgs(name)
		}
		e := s.lookup(db, a[0])
		if e == nil || e.expireAt == 0 {
			return integer(0)
		}
		e.expireAt = 0
		return integer(1)
	case "TTL", "PTTL":
		if len(a) != 1 {
			return wrongArgs(name)
		}
		e := s.lookup(db, a[0])
		if e == nil {
			return integer(-2)
		}
		if e.expireAt == 0 {
			return integer(-1)
		}
		ms := e.expireAt - s.now
		if name == "TTL" {
			return integer(int((ms + 999) / 1000))
		}
		return integer(int(ms))
	case "DBSIZE":
		return integer(len(s.liveKeys(db)))
	case "FLUSHDB":
		s.dbs[db] = map[string]*entry{}
		return okReply
	case "FLUSHALL":
		s.dbs = map[int]map[string]*entry{}
		return okReply
	case "KEYS":
		if len(a) != 1 {
			return wrongArgs(name)
		}
		var out []string
		for _, k := range s.liveKeys(db) {
			if Match(a[0], k) {
				out = append(out, k)
			}
		}
		return arrayOf(out)
	case "SCAN":
		return s.scan(db, a)
	}
	s.unknown++
	return errReply("ERR unknown command `" + strings.ToLower(name) + "`")
}

func arrayOf(v []string) string {
	var b strings.Builder
	b.WriteString("*" + strconv.Itoa(len(v)) + "\r\n")
	for _, x := range v {
		b.WriteString(bulk(x))
	}
	return b.String()
}

func (s *Server) liveKeys(db int) []string {
	var out []string
	for k, e := range s.db(db) {
		if e.expireAt != 0 && e.expireAt <= s.now {
			continue
		}
		out = append(out, k)
	}
	return out
}

func (s *Server) scanOrder(keys []string) {
	type hk struct {
		h uint64
		k string
	}
	hs := make([]hk, len(keys))
	var salt [8]byte
	binary.LittleEndian.PutUint64(salt[:], s.ScanSalt)
	for i, k := range keys {
		sum := sha256.Sum256(append(salt[:], k...))
		hs[i] = hk{binary.LittleEndian.Uint64(sum[:8]), k}
	}
	sort.Slice(hs, func(i, j int) bool {
		if hs[i].h != hs[j].h {
			return hs[i].h < hs[j].h
		}
		return hs[i].k < hs[j].k
	})
	for i := range hs {
		keys[i] = hs[i].k
	}
}

func (s *Server) scan(db int, a []string) string {
	if len(a) < 1 {
		return wrongArgs("SCAN")
	}
	cur, err := strconv.ParseUint(a[0], 10, 64)
	if err != nil {
		return errReply("ERR invalid cursor")
	}
	pattern := ""
	count := 10
	for i := 1; i < len(a); i++ {
		switch strings.ToUpper(a[i]) {
		case "MATCH":
			if i+1 >= len(a) {
				return errReply("ERR syntax error")
			}
			pattern = a[i+1]
			i++
		case "COUNT":
			if i+1 >= len(a) {
				return errReply("ERR syntax error")
			}
			n, err := strconv.Atoi(a[i+1])
			if err != nil || n < 1 {
				return errReply("ERR syntax error")
			}
			count = n
			i++
		case "TYPE":
			i++
		default:
			return errReply("ERR syntax error")
		}
	}
	var state *scanState
	if cur == 0 {
		keys := s.liveKeys(db)
		s.scanOrder(keys)
		state = &scanState{db: db, keys: keys}
	} else {
		state = s.cursors[cur]
		delete(s.cursors, cur)
		if state == nil || state.db != db {
			// an unknown cursor: Redis' behaviour is undefined but terminating; end the iteration
			return "*2\r\n" + bulk("0") + "*0\r\n"
		}
	}
	end := state.pos + count
	if end > len(state.keys) {
		end = len(state.keys)
	}
	var out []string
	for _, k := range state.keys[state.pos:end] {
		if s.lookup(db, k) == nil {
			continue // deleted or expired since the iteration started
		}
		if pattern == "" || Match(pattern, k) {
			out = append(out, k)
		}
	}
	state.pos = end
	next := uint64(0)
	if state.pos < len(state.keys) {
		s.nextCur++
		next = s.nextCur
		s.cursors[next] = state
		if len(s.cursors) > 4096 { // abandoned iterations
			for c := range s.cursors {
				if c != next {
					delete(s.cursors, c)
					break
				}
			}
		}
	}
	return "*2\r\n" + bulk(strconv.FormatUint(next, 10)) + arrayOf(out)
}

// Match implements Redis' glob matching (util.c stringmatchlen, case sensitive).
func Match(pattern, str string) bool {
	p, s := pattern, str
	for len(p) > 0 {
		switch p[0] {
		case '*':
			for len(p) > 1 && p[1] == '*' {
				p = p[1:]
			}
			if len(p) == 1 {
				return true
			}
			for i := 0; i <= len(s); i++ {
				if Match(p[1:], s[i:]) {
					return true
				}
			}
			return false
		case '?':
			if len(s) == 0 {
				return false
			}
			s = s[1:]
		case '[':
			if len(s) == 0 {
				return false
			}
			p = p[1:]
			not := len(p) > 0 && p[0] == '^'
			if not {
				p = p[1:]
			}
			match := false
			for {
				if len(p) == 0 {
					break
				}
				if p[0] == '\\' && len(p) >= 2 {
					p = p[1:]
					if p[0] == s[0] {
						match = true
					}
				} else if p[0] == ']' {
					break
				} else if len(p) >= 3 && p[1] == '-' {
					lo, hi := p[0], p[2]
					if lo > hi {
						lo, hi = hi, lo
					}
					p = p[2:]
					if s[0] >= lo && s[0] <= hi {
						match = true
					}
				} else if p[0] == s[0] {
					match = true
				}
				p = p[1:]
			}
			if not {
				match = !match
			}
			if !match {
				return false
			}
			s = s[1:]
			if len(p) == 0 {
				// pattern ended inside the set: Redis steps back one and the loop ends
				return len(s) == 0
			}
		case '\\':
			if len(p) >= 2 {
				p = p[1:]
			}
			fallthrough
		default:
			if len(s) == 0 || p[0] != s[0] {
				return false
			}
			s = s[1:]
		}
		p = p[1:]
		if len(s) == 0 {
			for len(p) > 0 && p[0] == '*' {
				p = p[1:]
			}
			break
		}
	}
	return len(p) == 0 && len(s) == 0
}
