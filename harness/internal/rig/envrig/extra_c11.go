package envrig

// Owned by the C11 monitor (masking). Adds the read pipeline of a deployment whose schema has masked columns
// only (no searchable column): proxyFactory.New subscribes the search-hash processor only when the schema's
// global mask has the search flag, so such a deployment has no hmac subscribers around the container detector.

import (
	"github.com/cossacklabs/acra/crypto"
	"github.com/cossacklabs/acra/decryptor/base"
	"github.com/cossacklabs/acra/masking"
)

// NewMaskingOnlyReadPipeline builds (old-)container detector [poison, masking/decrypt] without hmac subscribers.
func (e *Env) NewMaskingOnlyReadPipeline() *ReadPipeline {
	obs := base.NewColumnDecryptionObserver()
	detector := crypto.NewEnvelopeDetector()
	var containerDetector base.DecryptionSubscriber = detector
	if base.OldContainerDetectionOn {
		containerDetector = crypto.NewOldContainerDetectorWrapper(detector)
	}
	if e.Poison != nil && e.Poison.HasCallbacks() {
		pd := crypto.NewPoisonRecordsRecognizer(e.KS, e.Registry)
		pd.SetPoisonRecordCallbacks(e.Poison)
		detector.AddCallback(pd)
	}
	mp, err := masking.NewProcessor(e.Registry)
	if err != nil {
		panic(err)
	}
	detector.AddCallback(crypto.NewDecryptHandler(e.KS, mp))
	obs.SubscribeOnAllColumnsDecryption(containerDetector)
	return &ReadPipeline{obs: obs}
}
