package envrig

// Owned by the C11 monitor (masking), history layer.
//
// SessionPipeline is the set of decryption subscribers of ONE client connection: built once, the way
// decryptor/postgresql proxyFactory.New builds it from the global settings mask of the encryptor configuration
// (decoder, token processor when some column is tokenized, search-hash processor when some column is searchable,
// (old-)container detector with poison recogniser and ONE DecryptHandler over masking.Processor when some column is
// masked - over the plain registry handler otherwise -, the search-hash processor a second time, encoder), and then
// used for every column of every statement of that connection, with ONE access context whose column info is
// replaced per column (PgProxy.onColumnDecryption). Whatever state a subscriber keeps lives as long as the pipeline.
//
// The wire codec stages (the PostgreSQL decoder / encoder processors) are handed in by the caller so that this
// package stays free of the proxy packages.

import (
	"context"

	"github.com/cossacklabs/acra/crypto"
	"github.com/cossacklabs/acra/decryptor/base"
	encryptor "github.com/cossacklabs/acra/encryptor/base"
	"github.com/cossacklabs/acra/encryptor/base/config"
	"github.com/cossacklabs/acra/hmac"
	"github.com/cossacklabs/acra/masking"
	"github.com/cossacklabs/acra/pseudonymization"
)

// SessionOpts carries the codec stages of the connection: First is subscribed before everything else, Last after everything else.
type SessionOpts struct {
	First []base.DecryptionSubscriber
	Last  []base.DecryptionSubscriber
}

// SessionPipeline is one connection's decryption subscribers plus its access context.
type SessionPipeline struct {
	obs base.ColumnDecryptionObserver
	ac  *base.AccessContext
	ctx context.Context
	// Subscribers lists the subscriber ids in subscription order (evidence).
	Subscribers []string
}

// NewSessionPipeline builds the subscribers of a connection of clientID over the Env's schema.
func (e *Env) NewSessionPipeline(clientID []byte, o SessionOpts) (*SessionPipeline, error) {
	p := &SessionPipeline{obs: base.NewColumnDecryptionObserver()}
	sub := func(s base.DecryptionSubscriber) {
		p.obs.SubscribeOnAllColumnsDecryption(s)
		p.Subscribers = append(p.Subscribers, s.ID())
	}
	registryHandler := crypto.NewRegistryHandler(e.KS)
	envelopeDetector := crypto.NewEnvelopeDetector()
	var containerDetector base.DecryptionSubscriber = envelopeDetector
	if base.OldContainerDetectionOn {
		containerDetector = crypto.NewOldContainerDetectorWrapper(envelopeDetector)
	}
	var decryptorDataProcessor base.DataProcessor = registryHandler
	storeMask := e.Schema.GetGlobalSettingsMask()
	for _, s := range o.First {
		sub(s)
	}
	if e.Poison != nil && e.Poison.HasCallbacks() {
		pd := crypto.NewPoisonRecordsRecognizer(e.KS, registryHandler)
		pd.SetPoisonRecordCallbacks(e.Poison)
		envelopeDetector.AddCallback(pd)
	}
	if storeMask&config.SettingTokenizationFlag == config.SettingTokenizationFlag {
		tokenizer, err := pseudonymization.NewDataTokenizer(e.Tokenizer)
		if err != nil {
			return nil, err
		}
		tokenProcessor, err := pseudonymization.NewTokenProcessor(tokenizer)
		if err != nil {
			return nil, err
		}
		sub(tokenProcessor)
	}
	var hmacProcessor *hmac.Processor
	if storeMask&config.SettingSearchFlag == config.SettingSearchFlag {
		hmacProcessor = hmac.NewHMACProcessor(e.KS)
		sub(hmacProcessor)
	}
	if storeMask&config.SettingMaskingFlag == config.SettingMaskingFlag {
		mp, err := masking.NewProcessor(registryHandler)
		if err != nil {
			return nil, err
		}
		decryptorDataProcessor = mp
	}
	envelopeDetector.AddCallback(crypto.NewDecryptHandler(e.KS, decryptorDataProcessor))
	sub(containerDetector)
	if hmacProcessor != nil {
		sub(hmacProcessor)
	}
	for _, s := range o.Last {
		sub(s)
	}
	p.ac = base.NewAccessContext(base.WithClientID(clientID))
	p.ctx = base.SetAccessContextToContext(context.Background(), p.ac)
	return p, nil
}

// OnColumn processes one field of a result row: index = position in the row, binaryFormat = result format of the field,
// setting = the column's setting (nil for a column without configuration). The returned slice is NOT copied: the proxy
// keeps the slices of a row until the whole row has been processed, and so may the caller.
func (p *SessionPipeline) OnColumn(index int, binaryFormat bool, setting config.ColumnEncryptionSetting, value []byte) ([]byte, error) {
	p.ac.SetColumnInfo(base.NewColumnInfo(index, "", binaryFormat, len(value), 0, 0))
	ctx := base.SetAccessContextToContext(p.ctx, p.ac)
	ctx = encryptor.NewContextWithEncryptionSetting(ctx, setting)
	_, out, err := p.obs.OnColumnDecryption(ctx, index, value)
	return out, err
}

// OnColumnKeep is ReadPipeline.OnColumn without the defensive copies: the value is handed in as it is and the result is
// the subscribers' own slice (see SessionPipeline.OnColumn).
func (p *ReadPipeline) OnColumnKeep(clientID []byte, setting config.ColumnEncryptionSetting, value []byte) ([]byte, error) {
	ac := base.NewAccessContext(base.WithClientID(clientID))
	ctx := base.SetAccessContextToContext(context.Background(), ac)
	if setting != nil {
		ctx = encryptor.NewContextWithEncryptionSetting(ctx, setting)
	}
	_, out, err := p.obs.OnColumnDecryption(ctx, 0, value)
	return out, err
}
