// Package envrig assembles the real protect/reveal entry points of Acra over a real keystore:
// library calls, RegistryHandler, TranslatorService and the transparent column pipeline
// (the same encryptor chain and decryption subscribers that the proxy factories build).
package envrig

import (
	"context"
	"fmt"
	"sync"

	"github.com/cossacklabs/acra/cmd/acra-translator/common"
	"github.com/cossacklabs/acra/crypto"
	"github.com/cossacklabs/acra/decryptor/base"
	encryptor "github.com/cossacklabs/acra/encryptor/base"
	"github.com/cossacklabs/acra/encryptor/base/config"
	"github.com/cossacklabs/acra/hmac"
	"github.com/cossacklabs/acra/keystore"
	"github.com/cossacklabs/acra/masking"
	"github.com/cossacklabs/acra/pseudonymization"
	tokenCommon "github.com/cossacklabs/acra/pseudonymization/common"
	"github.com/cossacklabs/acra/pseudonymization/storage"

	"verif/harness/internal/rig/ksrig"
)

var initOnce sync.Once

// InitRegistry initialises Acra's global envelope registry once per process.
func InitRegistry(ks keystore.ServerKeyStore) {
	initOnce.Do(func() {
		if err := crypto.InitRegistry(ks); err != nil {
			panic(err)
		}
	})
}

// Env is one keystore with its services.
type Env struct {
	Name       string
	KS         ksrig.FullKeyStore
	Registry   crypto.RegistryHandler
	Translator *common.TranslatorService
	Poison     base.PoisonRecordCallbackStorage
	Tokenizer  tokenCommon.Pseudoanonymizer
	Schema     *config.MapTableSchemaStore
}

// ColumnsYAML is the column configuration used by the library-layer column pipeline.
const ColumnsYAML = `
schemas:
  - table: t
    columns: [id, plain_as, plain_ab, search_as, search_ab, mask_as_l, mask_ab_r]
    encrypted:
      - column: plain_as
        crypto_envelope: acrastruct
      - column: plain_ab
        crypto_envelope: acrablock
      - column: search_as
        searchable: true
        crypto_envelope: acrastruct
      - column: search_ab
        searchable: true
        crypto_envelope: acrablock
      - column: mask_as_l
        crypto_envelope: acrastruct
        masking: "xxxx"
        plaintext_length: 3
        plaintext_side: left
      - column: mask_ab_r
        crypto_envelope: acrablock
        masking: "**"
        plaintext_length: 2
        plaintext_side: right
`

// New builds an Env over ks. callbacks may be nil (no poison detection configured).
func New(name string, ks ksrig.FullKeyStore, callbacks base.PoisonRecordCallbackStorage, schemaYAML string) (*Env, error) {
	InitRegistry(ks)
	tokStore, err := storage.NewMemoryTokenStorage()
	if err != nil {
		return nil, err
	}
	tokenizer, err := pseudonymization.NewPseudoanonymizer(tokStore)
	if err != nil {
		return nil, err
	}
	td := &common.TranslatorData{Keystorage: ks, PoisonRecordCallbacks: callbacks, Tokenizer: tokenizer}
	ts, err := common.NewTranslatorService(td)
	if err != nil {
		return nil, err
	}
	if schemaYAML == "" {
		schemaYAML = ColumnsYAML
	}
	schema, err := config.MapTableSchemaStoreFromConfig([]byte(schemaYAML), false)
	if err != nil {
		return nil, fmt.Errorf("schema: %w", err)
	}
	return &Env{Name: name, KS: ks, Registry: crypto.NewRegistryHandler(ks), Translator: ts, Poison: callbacks, Tokenizer: tokenizer, Schema: schema}, nil
}

// Setting returns the column setting of table t.
func (e *Env) Setting(column string) config.ColumnEncryptionSetting {
	return e.Schema.GetTableSchema("t").GetColumnEncryptionSettings(column)
}

// WriteChain is the encryptor chain the proxy factories build (without the tokenizer stage).
func (e *Env) WriteChain() encryptor.DataEncryptor {
	chain := []encryptor.DataEncryptor{crypto.NewEncryptHandler(e.Registry)}
	search, _ := hmac.NewSearchableEncryptor(e.KS, e.Registry, e.Registry)
	chain = append(chain, search)
	maskingInner := encryptor.NewChainDataEncryptor([]encryptor.DataEncryptor{e.Registry}...)
	maskEnc, _ := masking.NewMaskingDataEncryptor(e.KS, maskingInner)
	chain = append(chain, maskEnc)
	chain = append(chain, crypto.NewReEncryptHandler(e.KS))
	return encryptor.NewChainDataEncryptor(chain...)
}

// ReadPipeline is a fresh per-session set of decryption subscribers in the order proxyFactory.New subscribes them.
type ReadPipeline struct {
	obs base.ColumnDecryptionObserver
}

// NewReadPipeline builds hmac → (old-)container detector [poison, decrypt/masking] → hmac.
func (e *Env) NewReadPipeline(withMasking bool) *ReadPipeline {
	obs := base.NewColumnDecryptionObserver()
	detector := crypto.NewEnvelopeDetector()
	var containerDetector base.DecryptionSubscriber = detector
	if base.OldContainerDetectionOn {
		containerDetector = crypto.NewOldContainerDetectorWrapper(detector)
	}
	if e.Poison != nil && e.Poison.HasCallbacks() {
		pd := crypto.NewPoisonRecordsRecognizer(e.KS, e.Registry)
		pd.SetPoisonRecordCallbacks(e.Poison)
		detector.AddCallback(pd)
	}
	hp := hmac.NewHMACProcessor(e.KS)
	obs.SubscribeOnAllColumnsDecryption(hp)
	var proc base.DataProcessor = e.Registry
	if withMasking {
		mp, err := masking.NewProcessor(e.Registry)
		if err != nil {
			panic(err)
		}
		proc = mp
	}
	detector.AddCallback(crypto.NewDecryptHandler(e.KS, proc))
	obs.SubscribeOnAllColumnsDecryption(containerDetector)
	obs.SubscribeOnAllColumnsDecryption(hp)
	return &ReadPipeline{obs: obs}
}

// OnColumn passes one column value through the pipeline under the given client identity and column setting (may be nil).
func (p *ReadPipeline) OnColumn(clientID []byte, setting config.ColumnEncryptionSetting, value []byte) ([]byte, bool, error) {
	ac := base.NewAccessContext(base.WithClientID(clientID))
	ctx := base.SetAccessContextToContext(context.Background(), ac)
	if setting != nil {
		ctx = encryptor.NewContextWithEncryptionSetting(ctx, setting)
	}
	in := append([]byte{}, value...)
	ctx, out, err := p.obs.OnColumnDecryption(ctx, 0, in)
	return out, base.IsDecryptedFromContext(ctx), err
}

// ProcCtx builds a DataProcessorContext for the client.
func (e *Env) ProcCtx(clientID []byte) *base.DataProcessorContext {
	ac := base.NewAccessContext(base.WithClientID(clientID))
	return &base.DataProcessorContext{Keystore: e.KS, Context: base.SetAccessContextToContext(context.Background(), ac)}
}
