package fakepg

import (
	"fmt"
	"testing"
)

func run(t *testing.T, db *DB, sql string, params ...Param) string {
	st, err := Parse(sql)
	if err != nil {
		t.Fatalf("%s: %v", sql, err)
	}
	res, err := db.Exec(st, params)
	if err != nil {
		return "ERR " + err.Error()
	}
	out := ""
	for _, r := range res.Rows {
		out += fmt.Sprint(r) + ";"
	}
	return out
}

// TestExtSubset pins the semantics of the extended subset (ext.go) on a tiny table.
func TestExtSubset(t *testing.T) {
	db := NewDB()
	db.CreateTable("p", []Column{{"id", Int4}, {"s", Text}, {"b", Bytea}})
	db.CreateTable("o", []Column{{"id", Int4}, {"s", Text}})
	for _, q := range []string{
		`insert into p values (1, 'x', '\x01'), (2, 'y', '\x0225'), (3, null, null), (4, 'x', '\x01')`,
		`insert into o values (1, 'x'), (3, 'z')`,
	} {
		if r := run(t, db, q); r != "" {
			t.Fatal(r)
		}
	}
	for _, tc := range []struct{ sql, want string }{
		{`select id from p where s is distinct from 'x' order by id`, "[2];[3];"},
		{`select id from p where s is not distinct from 'x' order by id`, "[1];[4];"},
		{`select id from p where s is not distinct from null order by id`, "[3];"},
		{`select id from p where (s = 'x') = true order by id`, "[1];[4];"},
		{`select id from p where (s = 'x') <> true order by id`, "[2];"},
		{`select id from p where (s = 'x') is not true order by id`, "[2];[3];"},
		{`select id from p where s = 'x' is true order by id`, "[1];[4];"},
		{`select id from p where not (s = 'x') order by id`, "[2];"},
		{`select id from p where case when s = 'x' then true else false end order by id`, "[1];[4];"},
		{`select id, case when s = 'x' then 1 else 0 end from p order by id`, "[1 1];[2 0];[3 0];[4 1];"},
		{`select id from p where nullif(s, 'x') is null order by id`, "[1];[3];[4];"},
		{`select id from p where s = any(array['x','q']) order by id`, "[1];[4];"},
		{`select id from p where s = any('{x,"q"}') order by id`, "[1];[4];"},
		{`select id from p where s <> all(array['x','q']) order by id`, "[2];"},
		{`select id from p where s like 'x' order by id`, "[1];[4];"},
		{`select id from p where s not like 'x' order by id`, "[2];"},
		{`select id from p where s like '%' order by id`, "[1];[2];[4];"},
		{`select id from p where b like '\x0225' order by id`, "[2];"},
		{`select id from p where b like '\x025c25' order by id`, "[2];"},
		{`select id from p where id in (select id from o where s = 'x') order by id`, "[1];"},
		{`select id from p where id = (select id from o where s = 'z') order by id`, "[3];"},
		{`select id from p where id = (select id from o where s = 'nope') order by id`, ""},
		{`select id from p where exists (select 1 from o where o.s = p.s) order by id`, "[1];[4];"},
		{`select id from p where exists (select 1 from o where o.id = p.id and o.s = 'z') order by id`, "[3];"},
		{`with c as (select id from p where s = 'x') select id from c order by id`, "[1];[4];"},
		{`select q.id from (select id, s from p) as q where q.s = 'y' order by q.id`, "[2];"},
		{`select id from p where s = 'y' union all select id from o where s = 'z'`, "[2];[3];"},
		{`select id from p where s in ('x', 'q') order by id`, "[1];[4];"},
		{`delete from o where id in (select id from p where s = 'x')`, ""},
		{`select id from o order by id`, "[3];"},
	} {
		if got := run(t, db, tc.sql); got != tc.want {
			t.Errorf("%s\n got %q\nwant %q", tc.sql, got, tc.want)
		}
	}
	if got := run(t, db, `select id from p where s = any($1) order by id`, Param{Data: []byte(`{x,y}`)}); got != "[1];[2];[4];" {
		t.Errorf("any($1): %q", got)
	}
	if got := run(t, db, `select id from p where s = any($1) order by id`, Param{Data: []byte("\x7fgarbage")}); got[:3] != "ERR" {
		t.Errorf("any(garbage): %q", got)
	}
}
