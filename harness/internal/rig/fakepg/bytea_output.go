package fakepg

import (
	"encoding/hex"
	"fmt"
	"strings"

	"github.com/jackc/pgx/v5/pgproto3"
)

// Server option bytea_output: "hex" (default: text-format bytea results are spelled \x<hex>) or "escape" (PostgreSQL's
// escape spelling: printable bytes as they are, backslash doubled, every other byte as backslash + three octal digits).
// Set it with SetByteaOutput before clients connect.

// SetByteaOutput selects the spelling of text-format bytea results ("hex" or "escape").
func (s *Server) SetByteaOutput(mode string) {
	s.mu.Lock()
	s.byteaOutput = mode
	s.mu.Unlock()
}

// ByteaOutput returns the configured spelling.
func (s *Server) ByteaOutput() string {
	s.mu.Lock()
	defer s.mu.Unlock()
	if s.byteaOutput != "" {
		return s.byteaOutput
	}
	return "hex"
}

// EncodeByteaEscape renders bytes in PostgreSQL's bytea escape output format.
func EncodeByteaEscape(b []byte) []byte {
	var sb strings.Builder
	for _, c := range b {
		switch {
		case c == '\\':
			sb.WriteString(`\\`)
		case c < 0x20 || c > 0x7e:
			fmt.Fprintf(&sb, `\%03o`, c)
		default:
			sb.WriteByte(c)
		}
	}
	return []byte(sb.String())
}

// outRow applies the bytea_output option to a row about to be sent.
func (s *Server) outRow(dr *pgproto3.DataRow, fields []Field, formats []int16) *pgproto3.DataRow {
	if s.ByteaOutput() != "escape" {
		return dr
	}
	for i, v := range dr.Values {
		if v == nil || fields[i].Type != Bytea || fmtFor(formats, i) {
			continue
		}
		if len(v) >= 2 && v[0] == '\\' && v[1] == 'x' {
			if raw, err := hex.DecodeString(string(v[2:])); err == nil {
				dr.Values[i] = EncodeByteaEscape(raw)
			}
		}
	}
	return dr
}
