package fakepg

import (
	"bytes"
	"crypto/tls"
	"fmt"
	"io"
	"net"
	"sync"
)

// TLSFront stands in front of a Server and gives it the server side of PostgreSQL's in-protocol TLS upgrade: a connection
// that opens with SSLRequest is answered 'S', the TLS handshake is performed (client certificate demanded when the
// configuration says so) and the decrypted stream is relayed to the plain server; any other connection is relayed as is.
// (The Server itself answers SSLRequest with 'N'; it is not modified.)
type TLSFront struct {
	ln      net.Listener
	backend int
	cfg     *tls.Config
	mu      sync.Mutex
	// Upgrades counts connections that switched to TLS.
	Upgrades int
}

var sslRequest = []byte{0, 0, 0, 8, 4, 210, 22, 47}

// NewTLSFront starts the front for the server listening on backendPort.
func NewTLSFront(backendPort int, cfg *tls.Config) (*TLSFront, error) {
	ln, err := net.Listen("tcp", "127.0.0.1:0")
	if err != nil {
		return nil, err
	}
	f := &TLSFront{ln: ln, backend: backendPort, cfg: cfg}
	go f.accept()
	return f, nil
}

// Port the front listens on.
func (f *TLSFront) Port() int { return f.ln.Addr().(*net.TCPAddr).Port }

// Close stops accepting.
func (f *TLSFront) Close() { f.ln.Close() }

// UpgradeCount returns the number of connections that switched to TLS.
func (f *TLSFront) UpgradeCount() int { f.mu.Lock(); defer f.mu.Unlock(); return f.Upgrades }

func (f *TLSFront) accept() {
	for {
		c, err := f.ln.Accept()
		if err != nil {
			return
		}
		go f.serve(c)
	}
}

func (f *TLSFront) serve(c net.Conn) {
	defer c.Close()
	first := make([]byte, 8)
	if _, err := io.ReadFull(c, first); err != nil {
		return
	}
	var client net.Conn = c
	var pending []byte
	if bytes.Equal(first, sslRequest) {
		if _, err := c.Write([]byte{'S'}); err != nil {
			return
		}
		tc := tls.Server(c, f.cfg)
		if err := tc.Handshake(); err != nil {
			return
		}
		f.mu.Lock()
		f.Upgrades++
		f.mu.Unlock()
		client = tc
	} else {
		pending = first
	}
	b, err := net.Dial("tcp", fmt.Sprintf("127.0.0.1:%d", f.backend))
	if err != nil {
		return
	}
	defer b.Close()
	if len(pending) > 0 {
		if _, err := b.Write(pending); err != nil {
			return
		}
	}
	done := make(chan struct{}, 2)
	go func() { io.Copy(b, client); b.(*net.TCPConn).CloseWrite(); done <- struct{}{} }()
	go func() { io.Copy(client, b); done <- struct{}{} }()
	<-done
}
