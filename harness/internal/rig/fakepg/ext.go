package fakepg

// Extension of the evaluated subset (added for C09's nested-condition and operator-family workload; everything here is
// reached only through the fall-through points of eval / cond / fromScope / execSelect, so statements of the base subset are
// evaluated exactly as before):
//
//   - A_Expr kinds IS [NOT] DISTINCT FROM, NULLIF, op ANY/ALL (ARRAY[..] or an array literal / text-format array parameter),
//     [NOT] LIKE / ILIKE (% _ and backslash escape, on text and on bytea);
//   - boolean-valued operands: (a = b) = true, (a = b) <> (c = d);
//   - <cond> IS [NOT] TRUE / FALSE / UNKNOWN; CASE WHEN <cond> THEN .. ELSE .. END as a condition and as a value;
//   - sub-selects: EXISTS (..), <expr> [NOT] IN (select ..), <expr> op ANY/ALL (select ..), scalar (select ..), correlated
//     with the enclosing row; WITH <name> AS (select ..) and FROM (select ..) AS <alias> (materialised as temporary
//     tables); UNION [ALL] of selects (ORDER BY / LIMIT of the union itself are not evaluated).

import (
	"bytes"
	"fmt"
	"strings"
)

// extState is per-statement state of the extension (the store is locked while a statement runs).
type extState struct {
	temp   map[string]*Table
	params []Param
}

// triCmp compares two tri-state booleans with = / <>.
func triCmp(op string, a, b int) (int, error) {
	if a == 2 || b == 2 {
		return 2, nil
	}
	switch op {
	case "=":
		return b2i(a == b), nil
	case "<>", "!=":
		return b2i(a != b), nil
	}
	return 0, fmt.Errorf("%w: boolean operator %s", ErrUnsupported, op)
}

// isBoolNode reports whether an expression node is boolean-valued by construction.
func isBoolNode(e node) bool {
	k, b := one(e)
	switch k {
	case "BoolExpr", "BooleanTest", "NullTest":
		return true
	case "A_Expr":
		kind, _ := b["kind"].(string)
		return kind != "AEXPR_NULLIF"
	case "A_Const":
		_, ok := b["boolval"]
		return ok
	case "SubLink":
		t, _ := b["subLinkType"].(string)
		return t == "EXISTS_SUBLINK" || t == "ANY_SUBLINK" || t == "ALL_SUBLINK"
	}
	return false
}

func opName(b node) string {
	names := asList(b["name"])
	if len(names) == 0 {
		return ""
	}
	_, opn := one(asNode(names[0]))
	s, _ := opn["sval"].(string)
	return s
}

// compare evaluates l <op> r for two typed values (NULL => unknown).
func compareTV(op string, l, r tv) (int, error) {
	if l.isNull || r.isNull {
		return 2, nil
	}
	lv, rv, err := unify(l, r)
	if err != nil {
		return 0, err
	}
	if lv == nil || rv == nil {
		return 2, nil
	}
	cv, err := cmpValues(lv, rv)
	if err != nil {
		return 0, err
	}
	switch op {
	case "=":
		return b2i(cv == 0), nil
	case "<>", "!=":
		return b2i(cv != 0), nil
	case "<":
		return b2i(cv < 0), nil
	case ">":
		return b2i(cv > 0), nil
	case "<=":
		return b2i(cv <= 0), nil
	case ">=":
		return b2i(cv >= 0), nil
	}
	return 0, fmt.Errorf("%w: operator %s", ErrUnsupported, op)
}

// anyAll folds element comparisons the way op ANY (..) / op ALL (..) do.
func anyAll(all bool, results []int) int {
	if all {
		res := 1
		for _, v := range results {
			if v == 0 {
				return 0
			}
			if v == 2 {
				res = 2
			}
		}
		return res
	}
	res := 0
	for _, v := range results {
		if v == 1 {
			return 1
		}
		if v == 2 {
			res = 2
		}
	}
	return res
}

// parseArrayText parses PostgreSQL's array input syntax for a one-dimensional array: {a,b,"c d",NULL}.
func parseArrayText(s string) ([]tv, error) {
	s = strings.TrimSpace(s)
	if len(s) < 2 || s[0] != '{' || s[len(s)-1] != '}' {
		return nil, sqlErr("22P02", "malformed array literal")
	}
	s = s[1 : len(s)-1]
	var out []tv
	if strings.TrimSpace(s) == "" {
		return out, nil
	}
	i := 0
	for {
		for i < len(s) && s[i] == ' ' {
			i++
		}
		if i < len(s) && s[i] == '"' {
			i++
			var el []byte
			closed := false
			for i < len(s) {
				if s[i] == '\\' && i+1 < len(s) {
					el = append(el, s[i+1])
					i += 2
					continue
				}
				if s[i] == '"' {
					closed = true
					i++
					break
				}
				el = append(el, s[i])
				i++
			}
			if !closed {
				return nil, sqlErr("22P02", "malformed array literal")
			}
			out = append(out, tv{v: string(el), unknown: true})
		} else {
			j := i
			var el []byte
			for j < len(s) && s[j] != ',' {
				if s[j] == '{' || s[j] == '}' || s[j] == '"' {
					return nil, sqlErr("22P02", "malformed array literal")
				}
				if s[j] == '\\' && j+1 < len(s) {
					el = append(el, s[j+1])
					j += 2
					continue
				}
				el = append(el, s[j])
				j++
			}
			i = j
			t := strings.TrimSpace(string(el))
			if t == "" {
				return nil, sqlErr("22P02", "malformed array literal")
			}
			if strings.EqualFold(t, "null") {
				out = append(out, tv{isNull: true, unknown: true})
			} else {
				out = append(out, tv{v: t, unknown: true})
			}
		}
		for i < len(s) && s[i] == ' ' {
			i++
		}
		if i >= len(s) {
			return out, nil
		}
		if s[i] != ',' {
			return nil, sqlErr("22P02", "malformed array literal")
		}
		i++
	}
}

// arrayElements evaluates the right side of op ANY/ALL (array).
func (c *evalCtx) arrayElements(e node) ([]tv, error) {
	k, b := one(e)
	switch k {
	case "A_ArrayExpr":
		var out []tv
		for _, el := range asList(b["elements"]) {
			v, err := c.eval(asNode(el))
			if err != nil {
				return nil, err
			}
			out = append(out, v)
		}
		return out, nil
	case "TypeCast":
		// '{..}'::text[] and the like: the element type follows the left operand anyway
		return c.arrayElements(asNode(b["arg"]))
	case "A_Const", "ParamRef":
		v, err := c.eval(e)
		if err != nil {
			return nil, err
		}
		if v.isNull {
			return nil, nil
		}
		if v.param != nil {
			if v.param.Binary {
				return nil, fmt.Errorf("%w: binary-format array parameter", ErrUnsupported)
			}
			return parseArrayText(string(v.param.Data))
		}
		s, ok := v.v.(string)
		if !ok || !v.unknown {
			return nil, sqlErr("42809", "op ANY/ALL (array) requires array on right side")
		}
		return parseArrayText(s)
	}
	return nil, fmt.Errorf("%w: array expression %s", ErrUnsupported, k)
}

// likeMatch implements LIKE on byte strings: % any run, _ one byte (one character for text is the generator's a-z), \ escapes.
func likeMatch(s, p []byte) (bool, error) {
	// pattern validity first: a trailing lone escape is an error in PostgreSQL
	for i := 0; i < len(p); i++ {
		if p[i] == '\\' {
			if i+1 >= len(p) {
				return false, sqlErr("22025", "LIKE pattern must not end with escape character")
			}
			i++
		}
	}
	var rec func(si, pi int) bool
	memo := map[[2]int]bool{}
	rec = func(si, pi int) bool {
		key := [2]int{si, pi}
		if v, ok := memo[key]; ok {
			return v
		}
		res := false
		switch {
		case pi == len(p):
			res = si == len(s)
		case p[pi] == '%':
			res = rec(si, pi+1) || (si < len(s) && rec(si+1, pi))
		case p[pi] == '_':
			res = si < len(s) && rec(si+1, pi+1)
		case p[pi] == '\\':
			res = si < len(s) && s[si] == p[pi+1] && rec(si+1, pi+2)
		default:
			res = si < len(s) && s[si] == p[pi] && rec(si+1, pi+1)
		}
		memo[key] = res
		return res
	}
	return rec(0, 0), nil
}

func valueBytes(v Value) ([]byte, bool) {
	switch x := v.(type) {
	case string:
		return []byte(x), true
	case []byte:
		return x, true
	}
	return nil, false
}

// subSelect runs a sub-select in the scope of the current row (correlated references resolve against it).
func (c *evalCtx) subSelect(sel node) (*Result, error) {
	k, body := one(sel)
	if k != "SelectStmt" {
		return nil, fmt.Errorf("%w: sub-select %s", ErrUnsupported, k)
	}
	outer := append(append([]scopeEntry{}, c.scope...), c.outer...)
	return c.db.execSelectIn(&Stmt{Kind: "SelectStmt", body: body}, c.params, outer)
}

func resultTV(res *Result, row []Value, col int) tv {
	t := Text
	if col < len(res.Fields) {
		t = res.Fields[col].Type
	}
	v := row[col]
	return tv{v: v, typ: t, isNull: v == nil}
}

// subLinkCond evaluates EXISTS / IN / op ANY / op ALL over a sub-select.
func (c *evalCtx) subLinkCond(b node) (int, error) {
	typ, _ := b["subLinkType"].(string)
	res, err := c.subSelect(asNode(b["subselect"]))
	if err != nil {
		return 0, err
	}
	switch typ {
	case "EXISTS_SUBLINK":
		return b2i(len(res.Rows) > 0), nil
	case "ANY_SUBLINK", "ALL_SUBLINK":
		if len(res.Fields) != 1 {
			return 0, sqlErr("42601", "subquery has too many columns")
		}
		l, err := c.eval(asNode(b["testexpr"]))
		if err != nil {
			return 0, err
		}
		op := "="
		if names := asList(b["operName"]); len(names) > 0 {
			_, opn := one(asNode(names[0]))
			op, _ = opn["sval"].(string)
		}
		var results []int
		for _, row := range res.Rows {
			v, err := compareTV(op, l, resultTV(res, row, 0))
			if err != nil {
				return 0, err
			}
			results = append(results, v)
		}
		return anyAll(typ == "ALL_SUBLINK", results), nil
	}
	return 0, fmt.Errorf("%w: sub-select kind %s", ErrUnsupported, typ)
}

// aexprExt evaluates the A_Expr forms outside the base subset; handled=false leaves the node to the base evaluator.
func (c *evalCtx) aexprExt(b node) (res int, handled bool, err error) {
	kind, _ := b["kind"].(string)
	op := opName(b)
	lex, rex := asNode(b["lexpr"]), asNode(b["rexpr"])
	switch kind {
	case "AEXPR_OP":
		if lex != nil && rex != nil && (isBoolNode(lex) || isBoolNode(rex)) && (op == "=" || op == "<>" || op == "!=") {
			lv, err := c.cond(lex)
			if err != nil {
				return 0, true, err
			}
			rv, err := c.cond(rex)
			if err != nil {
				return 0, true, err
			}
			v, err := triCmp(op, lv, rv)
			return v, true, err
		}
		return 0, false, nil
	case "AEXPR_DISTINCT", "AEXPR_NOT_DISTINCT":
		l, err := c.eval(lex)
		if err != nil {
			return 0, true, err
		}
		r, err := c.eval(rex)
		if err != nil {
			return 0, true, err
		}
		var distinct bool
		switch {
		case l.isNull && r.isNull:
			distinct = false
		case l.isNull || r.isNull:
			distinct = true
		default:
			v, err := compareTV("=", l, r)
			if err != nil {
				return 0, true, err
			}
			if v == 2 {
				// a parameter that turned out to be NULL
				distinct = true
			} else {
				distinct = v == 0
			}
		}
		if kind == "AEXPR_NOT_DISTINCT" {
			distinct = !distinct
		}
		return b2i(distinct), true, nil
	case "AEXPR_OP_ANY", "AEXPR_OP_ALL":
		l, err := c.eval(lex)
		if err != nil {
			return 0, true, err
		}
		els, err := c.arrayElements(rex)
		if err != nil {
			return 0, true, err
		}
		var results []int
		for _, el := range els {
			v, err := compareTV(op, l, el)
			if err != nil {
				return 0, true, err
			}
			results = append(results, v)
		}
		return anyAll(kind == "AEXPR_OP_ALL", results), true, nil
	case "AEXPR_LIKE", "AEXPR_ILIKE":
		l, err := c.eval(lex)
		if err != nil {
			return 0, true, err
		}
		r, err := c.eval(rex)
		if err != nil {
			return 0, true, err
		}
		if l.isNull || r.isNull {
			return 2, true, nil
		}
		lv, rv, err := unify(l, r)
		if err != nil {
			return 0, true, err
		}
		if lv == nil || rv == nil {
			return 2, true, nil
		}
		sb, ok1 := valueBytes(lv)
		pb, ok2 := valueBytes(rv)
		if !ok1 || !ok2 {
			return 0, true, sqlErr("42883", "operator does not exist: LIKE on these types")
		}
		if kind == "AEXPR_ILIKE" {
			sb, pb = bytes.ToLower(sb), bytes.ToLower(pb)
		}
		m, err := likeMatch(sb, pb)
		if err != nil {
			return 0, true, err
		}
		if strings.HasPrefix(op, "!") {
			m = !m
		}
		return b2i(m), true, nil
	case "AEXPR_NULLIF":
		return 0, true, sqlErr("42804", "argument of WHERE must be type boolean")
	}
	return 0, false, nil
}

// condExt evaluates condition nodes outside the base subset.
func (c *evalCtx) condExt(k string, b node) (int, error) {
	switch k {
	case "BooleanTest":
		v, err := c.cond(asNode(b["arg"]))
		if err != nil {
			return 0, err
		}
		switch t, _ := b["booltesttype"].(string); t {
		case "IS_TRUE":
			return b2i(v == 1), nil
		case "IS_NOT_TRUE":
			return b2i(v != 1), nil
		case "IS_FALSE":
			return b2i(v == 0), nil
		case "IS_NOT_FALSE":
			return b2i(v != 0), nil
		case "IS_UNKNOWN":
			return b2i(v == 2), nil
		case "IS_NOT_UNKNOWN":
			return b2i(v != 2), nil
		}
	case "CaseExpr":
		if b["arg"] != nil {
			return 0, fmt.Errorf("%w: CASE <expr> WHEN", ErrUnsupported)
		}
		for _, w := range asList(b["args"]) {
			_, cw := one(asNode(w))
			v, err := c.cond(asNode(cw["expr"]))
			if err != nil {
				return 0, err
			}
			if v == 1 {
				return c.cond(asNode(cw["result"]))
			}
		}
		if d := asNode(b["defresult"]); d != nil {
			return c.cond(d)
		}
		return 2, nil
	case "SubLink":
		return c.subLinkCond(b)
	}
	return 0, fmt.Errorf("%w: condition %s", ErrUnsupported, k)
}

// evalExt evaluates value expressions outside the base subset.
func (c *evalCtx) evalExt(k string, b node) (tv, error) {
	switch k {
	case "A_Expr":
		if kind, _ := b["kind"].(string); kind == "AEXPR_NULLIF" {
			l, err := c.eval(asNode(b["lexpr"]))
			if err != nil {
				return tv{}, err
			}
			r, err := c.eval(asNode(b["rexpr"]))
			if err != nil {
				return tv{}, err
			}
			v, err := compareTV("=", l, r)
			if err != nil {
				return tv{}, err
			}
			if v == 1 {
				return tv{isNull: true, typ: l.typ, unknown: l.unknown}, nil
			}
			return l, nil
		}
	case "CaseExpr":
		if b["arg"] != nil {
			return tv{}, fmt.Errorf("%w: CASE <expr> WHEN", ErrUnsupported)
		}
		for _, w := range asList(b["args"]) {
			_, cw := one(asNode(w))
			v, err := c.cond(asNode(cw["expr"]))
			if err != nil {
				return tv{}, err
			}
			if v == 1 {
				return c.eval(asNode(cw["result"]))
			}
		}
		if d := asNode(b["defresult"]); d != nil {
			return c.eval(d)
		}
		return tv{isNull: true, unknown: true}, nil
	case "SubLink":
		if t, _ := b["subLinkType"].(string); t != "EXPR_SUBLINK" {
			return tv{}, fmt.Errorf("%w: sub-select kind %s as a value", ErrUnsupported, t)
		}
		res, err := c.subSelect(asNode(b["subselect"]))
		if err != nil {
			return tv{}, err
		}
		if len(res.Fields) != 1 {
			return tv{}, sqlErr("42601", "subquery must return only one column")
		}
		switch len(res.Rows) {
		case 0:
			return tv{isNull: true, typ: res.Fields[0].Type}, nil
		case 1:
			return resultTV(res, res.Rows[0], 0), nil
		}
		return tv{}, sqlErr("21000", "more than one row returned by a subquery used as an expression")
	}
	return tv{}, fmt.Errorf("%w: expression %s", ErrUnsupported, k)
}

// tempTable materialises a result under a name.
func tempTable(name string, res *Result) *Table {
	t := &Table{Name: name}
	for _, f := range res.Fields {
		t.Cols = append(t.Cols, Column{Name: f.Name, Type: f.Type})
	}
	t.Rows = res.Rows
	return t
}

// fromExt resolves FROM items outside the base subset: (select ..) AS alias.
func (db *DB) fromExt(k string, b node) (scopeEntry, error) {
	if k != "RangeSubselect" {
		return scopeEntry{}, fmt.Errorf("%w: FROM item %s", ErrUnsupported, k)
	}
	a := asNode(b["alias"])
	if a == nil {
		return scopeEntry{}, sqlErr("42601", "subquery in FROM must have an alias")
	}
	alias, _ := a["aliasname"].(string)
	sk, body := one(asNode(b["subquery"]))
	if sk != "SelectStmt" {
		return scopeEntry{}, fmt.Errorf("%w: FROM (%s)", ErrUnsupported, sk)
	}
	var params []Param
	if db.ext != nil {
		params = db.ext.params
	}
	res, err := db.execSelectIn(&Stmt{Kind: "SelectStmt", body: body}, params, nil)
	if err != nil {
		return scopeEntry{}, err
	}
	return scopeEntry{alias: alias, t: tempTable(alias, res)}, nil
}

// selectExt handles WITH and UNION; handled=false leaves the statement to the base evaluator.
func (db *DB) selectExt(s *Stmt, params []Param, outer []scopeEntry) (*Result, bool, error) {
	if db.ext == nil {
		db.ext = &extState{temp: map[string]*Table{}}
	}
	db.ext.params = params
	if op, _ := s.body["op"].(string); op == "SETOP_UNION" {
		for _, k := range []string{"sortClause", "limitCount", "limitOffset", "withClause"} {
			if s.body[k] != nil {
				return nil, true, fmt.Errorf("%w: %s of a UNION", ErrUnsupported, k)
			}
		}
		l, err := db.execSelectIn(&Stmt{Kind: "SelectStmt", body: asNode(s.body["larg"])}, params, outer)
		if err != nil {
			return nil, true, err
		}
		r, err := db.execSelectIn(&Stmt{Kind: "SelectStmt", body: asNode(s.body["rarg"])}, params, outer)
		if err != nil {
			return nil, true, err
		}
		if len(l.Fields) != len(r.Fields) {
			return nil, true, sqlErr("42601", "each UNION query must have the same number of columns")
		}
		out := &Result{Fields: l.Fields}
		all, _ := s.body["all"].(bool)
		seen := map[string]bool{}
		for _, row := range append(append([][]Value{}, l.Rows...), r.Rows...) {
			if !all {
				k := fmt.Sprintf("%#v", row)
				if seen[k] {
					continue
				}
				seen[k] = true
			}
			out.Rows = append(out.Rows, row)
		}
		out.Tag = fmt.Sprintf("SELECT %d", len(out.Rows))
		return out, true, nil
	}
	if w := asNode(s.body["withClause"]); w != nil {
		if rec, _ := w["recursive"].(bool); rec {
			return nil, true, fmt.Errorf("%w: WITH RECURSIVE", ErrUnsupported)
		}
		var names []string
		defer func() {
			for _, n := range names {
				delete(db.ext.temp, n)
			}
		}()
		for _, ce := range asList(w["ctes"]) {
			_, cte := one(asNode(ce))
			name, _ := cte["ctename"].(string)
			qk, qb := one(asNode(cte["ctequery"]))
			if qk != "SelectStmt" {
				return nil, true, fmt.Errorf("%w: WITH .. AS (%s)", ErrUnsupported, qk)
			}
			res, err := db.execSelectIn(&Stmt{Kind: "SelectStmt", body: qb}, params, nil)
			if err != nil {
				return nil, true, err
			}
			db.ext.temp[name] = tempTable(name, res)
			names = append(names, name)
		}
		body := node{}
		for k, v := range s.body {
			if k != "withClause" {
				body[k] = v
			}
		}
		res, err := db.execSelectIn(&Stmt{Kind: "SelectStmt", body: body}, params, outer)
		return res, true, err
	}
	return nil, false, nil
}

// describeExt describes WITH and UNION statements without evaluating them: a CTE is described first and stands in as an
// empty temporary table while the main statement is described.
func (db *DB) describeExt(s *Stmt) ([]Field, bool, error) {
	if op, _ := s.body["op"].(string); op == "SETOP_UNION" {
		f, err := db.describeLocked(&Stmt{Kind: "SelectStmt", body: asNode(s.body["larg"])})
		return f, true, err
	}
	w := asNode(s.body["withClause"])
	if w == nil {
		return nil, false, nil
	}
	if db.ext == nil {
		db.ext = &extState{temp: map[string]*Table{}}
	}
	var names []string
	defer func() {
		for _, n := range names {
			delete(db.ext.temp, n)
		}
	}()
	for _, ce := range asList(w["ctes"]) {
		_, cte := one(asNode(ce))
		name, _ := cte["ctename"].(string)
		qk, qb := one(asNode(cte["ctequery"]))
		if qk != "SelectStmt" {
			return nil, true, fmt.Errorf("%w: WITH .. AS (%s)", ErrUnsupported, qk)
		}
		f, err := db.describeLocked(&Stmt{Kind: "SelectStmt", body: qb})
		if err != nil {
			return nil, true, err
		}
		db.ext.temp[name] = tempTable(name, &Result{Fields: f})
		names = append(names, name)
	}
	body := node{}
	for k, v := range s.body {
		if k != "withClause" {
			body[k] = v
		}
	}
	f, err := db.describeLocked(&Stmt{Kind: "SelectStmt", body: body})
	return f, true, err
}
