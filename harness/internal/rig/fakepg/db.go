// Package fakepg is a small in-memory PostgreSQL stand-in used on the database side of the proxy rig.
// It speaks the wire protocol through pgproto3 (pgx; independent of Acra's packet code), parses statements
// with PostgreSQL's own grammar (pg_query) and evaluates a documented subset literally:
// INSERT (column list or schema order, multi-row, RETURNING), UPDATE..WHERE, DELETE..WHERE,
// SELECT (star / explicit list / aliases / qualified names; WHERE with = <> < > IN AND OR NOT IS NULL,
// substr(col,from,len); inner JOIN .. ON; ORDER BY; LIMIT/OFFSET), literals, casts and $n parameters in text and binary format.
// Anything else yields ErrUnsupported, which the rig reports as rig-inconclusive, never as a property verdict.
package fakepg

import (
	"bytes"
	"encoding/binary"
	"encoding/hex"
	"encoding/json"
	"errors"
	"fmt"
	"sort"
	"strconv"
	"strings"
	"sync"

	pg_query "github.com/cossacklabs/pg_query_go/v5"
)

// ColType is a column type.
type ColType int

// Supported column types.
const (
	Int4 ColType = iota
	Int8
	Text
	Bytea
)

// OID returns the PostgreSQL type OID.
func (t ColType) OID() uint32 {
	switch t {
	case Int4:
		return 23
	case Int8:
		return 20
	case Text:
		return 25
	default:
		return 17
	}
}

func (t ColType) String() string { return [...]string{"int4", "int8", "text", "bytea"}[t] }

// Column of a table.
type Column struct {
	Name string
	Type ColType
}

// Value is nil | int64 | string | []byte.
type Value interface{}

// Table is an in-memory table.
type Table struct {
	Name string
	Cols []Column
	Rows [][]Value
}

func (t *Table) colIndex(name string) int {
	for i, c := range t.Cols {
		if c.Name == name {
			return i
		}
	}
	return -1
}

// ErrUnsupported marks statements outside the evaluated subset.
var ErrUnsupported = errors.New("fakepg: unsupported construct")

// SQLError is an error a real server would report to the client (the session continues).
type SQLError struct {
	Code string
	Msg  string
}

func (e *SQLError) Error() string { return e.Code + ": " + e.Msg }

func sqlErr(code, f string, a ...interface{}) error { return &SQLError{code, fmt.Sprintf(f, a...)} }

// Param is a bound parameter.
type Param struct {
	Null   bool
	Binary bool
	Data   []byte
}

// Field describes one result column.
type Field struct {
	Name  string
	Type  ColType
	Table string
	Col   int
}

// Result of one statement.
type Result struct {
	Tag    string
	Fields []Field // nil for statements returning no rows
	Rows   [][]Value
}

// DB is the store.
type DB struct {
	mu     sync.Mutex
	Tables map[string]*Table
	ext    *extState // ext.go: temporary tables of the statement being evaluated
}

// NewDB creates an empty store.
func NewDB() *DB { return &DB{Tables: map[string]*Table{}} }

// CreateTable declares a table.
func (db *DB) CreateTable(name string, cols []Column) {
	db.mu.Lock()
	defer db.mu.Unlock()
	db.Tables[name] = &Table{Name: name, Cols: append([]Column{}, cols...)}
}

// Snapshot returns a deep copy of all rows of a table.
func (db *DB) Snapshot(name string) [][]Value {
	db.mu.Lock()
	defer db.mu.Unlock()
	t := db.Tables[name]
	if t == nil {
		return nil
	}
	out := make([][]Value, len(t.Rows))
	for i, r := range t.Rows {
		out[i] = make([]Value, len(r))
		for j, v := range r {
			if b, ok := v.([]byte); ok {
				out[i][j] = append([]byte{}, b...)
			} else {
				out[i][j] = v
			}
		}
	}
	return out
}

// InsertRow appends a row directly (data placed by "somebody else", e.g. poison records planted in the database).
func (db *DB) InsertRow(table string, row []Value) {
	db.mu.Lock()
	defer db.mu.Unlock()
	t := db.Tables[table]
	t.Rows = append(t.Rows, append([]Value{}, row...))
}

// TamperAll applies f to every stored value of a column (used to model a hostile/buggy database).
func (db *DB) TamperAll(table, col string, f func(row int, v Value) Value) {
	db.mu.Lock()
	defer db.mu.Unlock()
	t := db.Tables[table]
	ci := t.colIndex(col)
	for i := range t.Rows {
		t.Rows[i][ci] = f(i, t.Rows[i][ci])
	}
}

type node = map[string]interface{}

func asNode(v interface{}) node {
	n, _ := v.(map[string]interface{})
	return n
}

func asList(v interface{}) []interface{} {
	l, _ := v.([]interface{})
	return l
}

func one(n node) (string, node) {
	for k, v := range n {
		return k, asNode(v)
	}
	return "", nil
}

// Stmt is a parsed statement.
type Stmt struct {
	SQL  string
	Kind string
	body node
}

// Parse parses exactly one statement.
func Parse(sql string) (*Stmt, error) {
	if strings.TrimSpace(sql) == "" {
		return &Stmt{SQL: sql, Kind: "Empty"}, nil
	}
	js, err := pg_query.ParseToJSON(sql)
	if err != nil {
		return nil, sqlErr("42601", "syntax error: %v", err)
	}
	var top node
	dec := json.NewDecoder(strings.NewReader(js))
	dec.UseNumber()
	if err := dec.Decode(&top); err != nil {
		return nil, err
	}
	fixNegativeInts(top, sql)
	stmts := asList(top["stmts"])
	if len(stmts) != 1 {
		return nil, fmt.Errorf("%w: %d statements in one message", ErrUnsupported, len(stmts))
	}
	k, b := one(asNode(asNode(stmts[0])["stmt"]))
	return &Stmt{SQL: sql, Kind: k, body: b}, nil
}

// fixNegativeInts repairs a quirk of libpg_query's JSON output: an integer constant that is negative (or zero) is
// rendered as "ival":{} - the value is re-read from the statement text at the constant's location.
func fixNegativeInts(v interface{}, sql string) {
	switch x := v.(type) {
	case map[string]interface{}:
		if ac, ok := x["A_Const"]; ok {
			n := asNode(ac)
			if iv, ok := n["ival"]; ok && len(asNode(iv)) == 0 {
				if loc, ok := n["location"].(json.Number); ok {
					if at, err := loc.Int64(); err == nil && int(at) < len(sql) {
						j := int(at)
						k := j
						if k < len(sql) && (sql[k] == '-' || sql[k] == '+') {
							k++
						}
						for k < len(sql) && (sql[k] == ' ' || sql[k] == '\t') {
							k++
						}
						d := k
						for d < len(sql) && sql[d] >= '0' && sql[d] <= '9' {
							d++
						}
						txt := sql[k:d]
						if sql[j] == '-' {
							txt = "-" + txt
						}
						if txt != "" && txt != "-" {
							n["ival"] = map[string]interface{}{"ival": json.Number(txt)}
						}
					}
				}
			}
		}
		for _, c := range x {
			fixNegativeInts(c, sql)
		}
	case []interface{}:
		for _, c := range x {
			fixNegativeInts(c, sql)
		}
	}
}

// NumParams returns the highest $n referenced.
func (s *Stmt) NumParams() int {
	max := 0
	var walk func(v interface{})
	walk = func(v interface{}) {
		switch x := v.(type) {
		case map[string]interface{}:
			if pr, ok := x["ParamRef"]; ok {
				if n, err := asNode(pr)["number"].(json.Number).Int64(); err == nil && int(n) > max {
					max = int(n)
				}
			}
			for _, c := range x {
				walk(c)
			}
		case []interface{}:
			for _, c := range x {
				walk(c)
			}
		}
	}
	walk(map[string]interface{}(s.body))
	return max
}

// typed expression value
type tv struct {
	v       Value
	typ     ColType
	unknown bool   // untyped string literal / text-format parameter: takes the type of its context
	param   *Param // raw parameter (coerced lazily)
	isNull  bool
}

type scopeEntry struct {
	alias string
	t     *Table
	row   []Value
}

type evalCtx struct {
	db     *DB
	params []Param
	scope  []scopeEntry
	outer  []scopeEntry // ext.go: rows of the enclosing statements (correlated sub-selects)
}

func (c *evalCtx) lookup(fields []string) (tv, error) {
	var q, name string
	if len(fields) == 2 {
		q, name = fields[0], fields[1]
	} else if len(fields) == 1 {
		name = fields[0]
	} else {
		return tv{}, ErrUnsupported
	}
	found := -1
	var res tv
	for _, s := range c.scope {
		if q != "" && s.alias != q {
			continue
		}
		if ci := s.t.colIndex(name); ci >= 0 {
			if found >= 0 {
				return tv{}, sqlErr("42702", "column reference %q is ambiguous", name)
			}
			found = ci
			v := s.row[ci]
			res = tv{v: v, typ: s.t.Cols[ci].Type, isNull: v == nil}
		}
	}
	if found < 0 && len(c.outer) > 0 {
		return (&evalCtx{db: c.db, params: c.params, scope: c.outer}).lookup(fields)
	}
	if found < 0 {
		return tv{}, sqlErr("42703", "column %q does not exist", name)
	}
	return res, nil
}

func fieldNames(n node) ([]string, bool) {
	var out []string
	for _, f := range asList(n["fields"]) {
		k, b := one(asNode(f))
		if k == "A_Star" {
			return out, true
		}
		if k != "String" {
			return nil, false
		}
		out = append(out, b["sval"].(string))
	}
	return out, false
}

// DecodeByteaText decodes PostgreSQL bytea input syntax (hex or escape format).
func DecodeByteaText(s string) ([]byte, error) {
	if strings.HasPrefix(s, `\x`) {
		b, err := hex.DecodeString(s[2:])
		if err != nil {
			return nil, sqlErr("22P02", "invalid hexadecimal data")
		}
		return b, nil
	}
	var out []byte
	for i := 0; i < len(s); i++ {
		if s[i] != '\\' {
			out = append(out, s[i])
			continue
		}
		if i+1 < len(s) && s[i+1] == '\\' {
			out = append(out, '\\')
			i++
			continue
		}
		if i+3 < len(s) {
			if v, err := strconv.ParseUint(s[i+1:i+4], 8, 8); err == nil {
				out = append(out, byte(v))
				i += 3
				continue
			}
		}
		return nil, sqlErr("22P02", "invalid input syntax for type bytea")
	}
	return out, nil
}

func parseIntFor(s string, t ColType) (int64, error) {
	v, err := strconv.ParseInt(strings.TrimSpace(s), 10, 64)
	if err != nil {
		return 0, sqlErr("22P02", "invalid input syntax for type integer: %q", s)
	}
	if t == Int4 && (v > 2147483647 || v < -2147483648) {
		return 0, sqlErr("22003", "value %q is out of range for type integer", s)
	}
	return v, nil
}

// coerce converts an expression value to column type t (assignment / comparison context).
func coerce(x tv, t ColType) (Value, error) {
	if x.isNull {
		return nil, nil
	}
	if x.param != nil {
		p := x.param
		if p.Null {
			return nil, nil
		}
		if !p.Binary {
			return coerce(tv{v: string(p.Data), unknown: true}, t)
		}
		switch t {
		case Int4:
			if len(p.Data) != 4 {
				return nil, sqlErr("08P01", "incorrect binary data format in bind parameter (int4 needs 4 bytes, got %d)", len(p.Data))
			}
			return int64(int32(binary.BigEndian.Uint32(p.Data))), nil
		case Int8:
			if len(p.Data) != 8 {
				return nil, sqlErr("08P01", "incorrect binary data format in bind parameter (int8 needs 8 bytes, got %d)", len(p.Data))
			}
			return int64(binary.BigEndian.Uint64(p.Data)), nil
		case Text:
			return string(p.Data), nil
		default:
			return append([]byte{}, p.Data...), nil
		}
	}
	if x.unknown {
		s := x.v.(string)
		switch t {
		case Int4, Int8:
			return parseIntFor(s, t)
		case Text:
			return s, nil
		default:
			return DecodeByteaText(s)
		}
	}
	switch v := x.v.(type) {
	case int64:
		switch t {
		case Int4:
			if v > 2147483647 || v < -2147483648 {
				return nil, sqlErr("22003", "integer out of range")
			}
			return v, nil
		case Int8:
			return v, nil
		case Text:
			return strconv.FormatInt(v, 10), nil
		default:
			return nil, sqlErr("42804", "column is of type bytea but expression is of type integer")
		}
	case string:
		switch t {
		case Text:
			return v, nil
		case Bytea:
			if x.typ == Text {
				return nil, sqlErr("42804", "column is of type bytea but expression is of type text")
			}
			return DecodeByteaText(v)
		default:
			return parseIntFor(v, t)
		}
	case []byte:
		if t == Bytea {
			return v, nil
		}
		if t == Text {
			return nil, sqlErr("42804", "column is of type text but expression is of type bytea")
		}
		return nil, sqlErr("42804", "column is of type integer but expression is of type bytea")
	}
	return nil, ErrUnsupported
}

func constVal(b node) (tv, error) {
	if _, ok := b["isnull"]; ok {
		return tv{isNull: true, unknown: true}, nil
	}
	if iv, ok := b["ival"]; ok {
		n := asNode(iv)
		if n["ival"] == nil {
			return tv{v: int64(0), typ: Int4}, nil
		}
		v, _ := n["ival"].(json.Number).Int64()
		return tv{v: v, typ: Int4}, nil
	}
	if fv, ok := b["fval"]; ok {
		s := asNode(fv)["fval"].(string)
		if v, err := strconv.ParseInt(s, 10, 64); err == nil {
			return tv{v: v, typ: Int8}, nil
		}
		return tv{}, fmt.Errorf("%w: numeric literal %s", ErrUnsupported, s)
	}
	if sv, ok := b["sval"]; ok {
		s, _ := asNode(sv)["sval"].(string)
		return tv{v: s, unknown: true}, nil
	}
	if bv, ok := b["bsval"]; ok {
		s, _ := asNode(bv)["bsval"].(string)
		return tv{}, fmt.Errorf("%w: bit/hex string literal %s", ErrUnsupported, s)
	}
	return tv{}, ErrUnsupported
}

func typeFromName(n node) (ColType, error) {
	names := asList(n["names"])
	if len(names) == 0 {
		return 0, ErrUnsupported
	}
	_, last := one(asNode(names[len(names)-1]))
	switch last["sval"].(string) {
	case "int4", "int", "integer":
		return Int4, nil
	case "int8", "bigint":
		return Int8, nil
	case "text", "varchar", "bpchar":
		return Text, nil
	case "bytea":
		return Bytea, nil
	}
	return 0, fmt.Errorf("%w: cast to %v", ErrUnsupported, last["sval"])
}

func (c *evalCtx) eval(e node) (tv, error) {
	k, b := one(e)
	switch k {
	case "A_Const":
		return constVal(b)
	case "ColumnRef":
		f, star := fieldNames(b)
		if star || f == nil {
			return tv{}, ErrUnsupported
		}
		return c.lookup(f)
	case "ParamRef":
		n, _ := b["number"].(json.Number).Int64()
		if int(n) < 1 || int(n) > len(c.params) {
			return tv{}, sqlErr("08P01", "there is no parameter $%d", n)
		}
		p := c.params[n-1]
		return tv{param: &p, unknown: true, isNull: p.Null}, nil
	case "TypeCast":
		arg, err := c.eval(asNode(b["arg"]))
		if err != nil {
			return tv{}, err
		}
		t, err := typeFromName(asNode(b["typeName"]))
		if err != nil {
			return tv{}, err
		}
		if arg.isNull {
			return tv{isNull: true, typ: t}, nil
		}
		if !arg.unknown && arg.param == nil {
			// explicit casts between typed values
			switch v := arg.v.(type) {
			case []byte:
				if t == Text {
					return tv{v: `\x` + hex.EncodeToString(v), typ: Text}, nil
				}
			case string:
				if t == Bytea {
					b, err := DecodeByteaText(v)
					return tv{v: b, typ: Bytea}, err
				}
			}
		}
		v, err := coerce(arg, t)
		if err != nil {
			return tv{}, err
		}
		return tv{v: v, typ: t, isNull: v == nil}, nil
	case "FuncCall":
		fn := asList(b["funcname"])
		_, last := one(asNode(fn[len(fn)-1]))
		name := last["sval"].(string)
		args := asList(b["args"])
		if (name == "substr" || name == "substring") && len(args) == 3 {
			s, err := c.eval(asNode(args[0]))
			if err != nil {
				return tv{}, err
			}
			from, err := c.eval(asNode(args[1]))
			if err != nil {
				return tv{}, err
			}
			ln, err := c.eval(asNode(args[2]))
			if err != nil {
				return tv{}, err
			}
			fi, ok1 := from.v.(int64)
			li, ok2 := ln.v.(int64)
			if !ok1 || !ok2 {
				return tv{}, ErrUnsupported
			}
			if s.isNull {
				return tv{isNull: true, typ: s.typ}, nil
			}
			cut := func(n int) (int, int) {
				st := int(fi) - 1
				en := st + int(li)
				if st < 0 {
					st = 0
				}
				if en > n {
					en = n
				}
				if en < st {
					en = st
				}
				if st > n {
					st, en = n, n
				}
				return st, en
			}
			switch v := s.v.(type) {
			case []byte:
				a, z := cut(len(v))
				return tv{v: append([]byte{}, v[a:z]...), typ: Bytea}, nil
			case string:
				r := []rune(v)
				a, z := cut(len(r))
				return tv{v: string(r[a:z]), typ: Text}, nil
			}
			return tv{}, ErrUnsupported
		}
		return tv{}, fmt.Errorf("%w: function %s/%d", ErrUnsupported, name, len(args))
	}
	return c.evalExt(k, b)
}

func cmpValues(a, b Value) (int, error) {
	switch x := a.(type) {
	case int64:
		y, ok := b.(int64)
		if !ok {
			return 0, sqlErr("42883", "operator does not exist for these types")
		}
		switch {
		case x < y:
			return -1, nil
		case x > y:
			return 1, nil
		}
		return 0, nil
	case string:
		y, ok := b.(string)
		if !ok {
			return 0, sqlErr("42883", "operator does not exist: text vs non-text")
		}
		return strings.Compare(x, y), nil
	case []byte:
		y, ok := b.([]byte)
		if !ok {
			return 0, sqlErr("42883", "operator does not exist: bytea vs non-bytea")
		}
		return bytes.Compare(x, y), nil
	}
	return 0, ErrUnsupported
}

// unify brings two operands to a common type.
func unify(l, r tv) (Value, Value, error) {
	switch {
	case !l.unknown && l.param == nil && (r.unknown || r.param != nil):
		rv, err := coerce(r, l.typ)
		return l.v, rv, err
	case !r.unknown && r.param == nil && (l.unknown || l.param != nil):
		lv, err := coerce(l, r.typ)
		return lv, r.v, err
	case !l.unknown && !r.unknown:
		if (l.typ == Int4 || l.typ == Int8) && (r.typ == Int4 || r.typ == Int8) {
			return l.v, r.v, nil
		}
		if l.typ != r.typ {
			return nil, nil, sqlErr("42883", "operator does not exist: %s vs %s", l.typ, r.typ)
		}
		return l.v, r.v, nil
	default:
		lv, err := coerce(l, Text)
		if err != nil {
			return nil, nil, err
		}
		rv, err := coerce(r, Text)
		return lv, rv, err
	}
}

// tri-state boolean: 0 false, 1 true, 2 null
func (c *evalCtx) cond(e node) (int, error) {
	if e == nil {
		return 1, nil
	}
	k, b := one(e)
	switch k {
	case "BoolExpr":
		op := b["boolop"].(string)
		args := asList(b["args"])
		switch op {
		case "NOT_EXPR":
			v, err := c.cond(asNode(args[0]))
			if err != nil {
				return 0, err
			}
			if v == 2 {
				return 2, nil
			}
			return 1 - v, nil
		case "AND_EXPR":
			res := 1
			for _, a := range args {
				v, err := c.cond(asNode(a))
				if err != nil {
					return 0, err
				}
				if v == 0 {
					res = 0
				} else if v == 2 && res != 0 {
					res = 2
				}
			}
			return res, nil
		case "OR_EXPR":
			res := 0
			for _, a := range args {
				v, err := c.cond(asNode(a))
				if err != nil {
					return 0, err
				}
				if v == 1 {
					res = 1
				} else if v == 2 && res != 1 {
					res = 2
				}
			}
			return res, nil
		}
	case "NullTest":
		v, err := c.eval(asNode(b["arg"]))
		if err != nil {
			return 0, err
		}
		isnull := v.isNull
		if b["nulltesttype"].(string) == "IS_NULL" {
			return b2i(isnull), nil
		}
		return b2i(!isnull), nil
	case "A_Expr":
		if v, handled, err := c.aexprExt(b); handled {
			return v, err
		}
		kind := b["kind"].(string)
		_, opn := one(asNode(asList(b["name"])[0]))
		op := opn["sval"].(string)
		l, err := c.eval(asNode(b["lexpr"]))
		if err != nil {
			return 0, err
		}
		if kind == "AEXPR_IN" {
			_, lst := one(asNode(b["rexpr"]))
			res := 0
			for _, it := range asList(lst["items"]) {
				r, err := c.eval(asNode(it))
				if err != nil {
					return 0, err
				}
				if l.isNull || r.isNull {
					if res == 0 {
						res = 2
					}
					continue
				}
				lv, rv, err := unify(l, r)
				if err != nil {
					return 0, err
				}
				cv, err := cmpValues(lv, rv)
				if err != nil {
					return 0, err
				}
				if cv == 0 {
					res = 1
				}
			}
			if op == "<>" {
				if res == 2 {
					return 2, nil
				}
				return 1 - res, nil
			}
			return res, nil
		}
		if kind != "AEXPR_OP" {
			return 0, fmt.Errorf("%w: %s", ErrUnsupported, kind)
		}
		r, err := c.eval(asNode(b["rexpr"]))
		if err != nil {
			return 0, err
		}
		if l.isNull || r.isNull {
			return 2, nil
		}
		lv, rv, err := unify(l, r)
		if err != nil {
			return 0, err
		}
		if lv == nil || rv == nil {
			return 2, nil
		}
		cv, err := cmpValues(lv, rv)
		if err != nil {
			return 0, err
		}
		switch op {
		case "=":
			return b2i(cv == 0), nil
		case "<>", "!=":
			return b2i(cv != 0), nil
		case "<":
			return b2i(cv < 0), nil
		case ">":
			return b2i(cv > 0), nil
		case "<=":
			return b2i(cv <= 0), nil
		case ">=":
			return b2i(cv >= 0), nil
		}
		return 0, fmt.Errorf("%w: operator %s", ErrUnsupported, op)
	case "A_Const":
		if bv, ok := b["boolval"]; ok {
			if asNode(bv)["boolval"] == true {
				return 1, nil
			}
			return 0, nil
		}
		if _, ok := b["isnull"]; ok {
			return 2, nil
		}
		return 0, fmt.Errorf("%w: condition %s", ErrUnsupported, k)
	}
	return c.condExt(k, b)
}

func b2i(b bool) int {
	if b {
		return 1
	}
	return 0
}

// Describe computes the result fields of a statement without executing it (nil for no rows).
func (db *DB) Describe(s *Stmt) ([]Field, error) {
	db.mu.Lock()
	defer db.mu.Unlock()
	return db.describeLocked(s)
}

func (db *DB) describeLocked(s *Stmt) ([]Field, error) {
	switch s.Kind {
	case "SelectStmt":
		if f, handled, err := db.describeExt(s); handled {
			return f, err
		}
		scope, _, err := db.fromScope(asList(s.body["fromClause"]))
		if err != nil {
			return nil, err
		}
		return db.targetFields(asList(s.body["targetList"]), scope)
	case "InsertStmt", "UpdateStmt", "DeleteStmt":
		rl := asList(s.body["returningList"])
		if len(rl) == 0 {
			return nil, nil
		}
		t, err := db.relTable(asNode(s.body["relation"]))
		if err != nil {
			return nil, err
		}
		return db.targetFields(rl, []scopeEntry{{alias: t.Name, t: t}})
	}
	return nil, nil
}

func (db *DB) relTable(rel node) (*Table, error) {
	name, _ := rel["relname"].(string)
	if db.ext != nil && db.ext.temp[name] != nil {
		return db.ext.temp[name], nil
	}
	t := db.Tables[name]
	if t == nil {
		return nil, sqlErr("42P01", "relation %q does not exist", name)
	}
	return t, nil
}

// fromScope flattens FROM into table entries plus join conditions.
func (db *DB) fromScope(from []interface{}) ([]scopeEntry, []node, error) {
	var scope []scopeEntry
	var quals []node
	var add func(n node) error
	add = func(n node) error {
		k, b := one(n)
		switch k {
		case "RangeVar":
			t, err := db.relTable(b)
			if err != nil {
				return err
			}
			alias := t.Name
			if a := asNode(b["alias"]); a != nil {
				alias = a["aliasname"].(string)
			}
			scope = append(scope, scopeEntry{alias: alias, t: t})
			return nil
		case "JoinExpr":
			if jt, _ := b["jointype"].(string); jt != "JOIN_INNER" {
				return fmt.Errorf("%w: %s", ErrUnsupported, jt)
			}
			if err := add(asNode(b["larg"])); err != nil {
				return err
			}
			if err := add(asNode(b["rarg"])); err != nil {
				return err
			}
			if q := asNode(b["quals"]); q != nil {
				quals = append(quals, q)
			}
			return nil
		}
		e, err := db.fromExt(k, b)
		if err != nil {
			return err
		}
		scope = append(scope, e)
		return nil
	}
	for _, f := range from {
		if err := add(asNode(f)); err != nil {
			return nil, nil, err
		}
	}
	return scope, quals, nil
}

type target struct {
	field Field
	expr  node // nil => direct column
	si    int  // scope index
	ci    int
}

func (db *DB) targets(tl []interface{}, scope []scopeEntry) ([]target, error) {
	var out []target
	for _, it := range tl {
		_, rt := one(asNode(it))
		val := asNode(rt["val"])
		k, b := one(val)
		if k == "ColumnRef" {
			f, star := fieldNames(b)
			if star {
				for si, s := range scope {
					if len(f) == 1 && s.alias != f[0] {
						continue
					}
					for ci, c := range s.t.Cols {
						out = append(out, target{field: Field{Name: c.Name, Type: c.Type, Table: s.t.Name, Col: ci + 1}, si: si, ci: ci})
					}
				}
				continue
			}
			var q, name string
			if len(f) == 2 {
				q, name = f[0], f[1]
			} else if len(f) == 1 {
				name = f[0]
			} else {
				return nil, ErrUnsupported
			}
			found := false
			for si, s := range scope {
				if q != "" && s.alias != q {
					continue
				}
				if ci := s.t.colIndex(name); ci >= 0 {
					if found {
						return nil, sqlErr("42702", "column reference %q is ambiguous", name)
					}
					found = true
					fn := name
					if a, ok := rt["name"].(string); ok {
						fn = a
					}
					out = append(out, target{field: Field{Name: fn, Type: s.t.Cols[ci].Type, Table: s.t.Name, Col: ci + 1}, si: si, ci: ci})
				}
			}
			if !found {
				return nil, sqlErr("42703", "column %q does not exist", name)
			}
			continue
		}
		// computed expression: only constants / casts / params (typed at execution)
		fn := "?column?"
		if a, ok := rt["name"].(string); ok {
			fn = a
		}
		out = append(out, target{field: Field{Name: fn, Type: Text}, expr: val, si: -1})
	}
	return out, nil
}

func (db *DB) targetFields(tl []interface{}, scope []scopeEntry) ([]Field, error) {
	ts, err := db.targets(tl, scope)
	if err != nil {
		return nil, err
	}
	out := make([]Field, len(ts))
	for i, t := range ts {
		out[i] = t.field
		if t.expr != nil {
			c := &evalCtx{db: db}
			if v, err := c.eval(t.expr); err == nil && !v.unknown {
				out[i].Type = v.typ
			}
		}
	}
	return out, nil
}

func (db *DB) project(ts []target, c *evalCtx) ([]Value, error) {
	row := make([]Value, len(ts))
	for i, t := range ts {
		if t.expr == nil {
			row[i] = c.scope[t.si].row[t.ci]
			continue
		}
		v, err := c.eval(t.expr)
		if err != nil {
			return nil, err
		}
		if v.unknown || v.param != nil {
			x, err := coerce(v, Text)
			if err != nil {
				return nil, err
			}
			row[i] = x
		} else {
			row[i] = v.v
		}
	}
	return row, nil
}

// Exec executes one statement.
func (db *DB) Exec(s *Stmt, params []Param) (*Result, error) {
	db.mu.Lock()
	defer db.mu.Unlock()
	switch s.Kind {
	case "Empty":
		return &Result{Tag: ""}, nil
	case "InsertStmt":
		return db.execInsert(s, params)
	case "UpdateStmt":
		return db.execUpdate(s, params)
	case "DeleteStmt":
		return db.execDelete(s, params)
	case "SelectStmt":
		return db.execSelect(s, params)
	case "TransactionStmt":
		return &Result{Tag: map[string]string{"TRANS_STMT_BEGIN": "BEGIN", "TRANS_STMT_START": "START TRANSACTION", "TRANS_STMT_COMMIT": "COMMIT", "TRANS_STMT_ROLLBACK": "ROLLBACK"}[fmt.Sprint(s.body["kind"])]}, nil
	case "VariableSetStmt":
		return &Result{Tag: "SET"}, nil
	}
	return nil, fmt.Errorf("%w: statement %s", ErrUnsupported, s.Kind)
}

func (db *DB) execInsert(s *Stmt, params []Param) (*Result, error) {
	t, err := db.relTable(asNode(s.body["relation"]))
	if err != nil {
		return nil, err
	}
	var colIdx []int
	if cols := asList(s.body["cols"]); len(cols) > 0 {
		for _, cn := range cols {
			_, rt := one(asNode(cn))
			ci := t.colIndex(rt["name"].(string))
			if ci < 0 {
				return nil, sqlErr("42703", "column %q of relation %q does not exist", rt["name"], t.Name)
			}
			colIdx = append(colIdx, ci)
		}
	}
	_, sel := one(asNode(s.body["selectStmt"]))
	if sel == nil {
		return nil, fmt.Errorf("%w: INSERT DEFAULT VALUES", ErrUnsupported)
	}
	vl := asList(sel["valuesLists"])
	if len(vl) == 0 {
		return nil, fmt.Errorf("%w: INSERT ... SELECT", ErrUnsupported)
	}
	if s.body["onConflictClause"] != nil {
		return nil, fmt.Errorf("%w: ON CONFLICT", ErrUnsupported)
	}
	c := &evalCtx{db: db, params: params}
	var newRows [][]Value
	for _, l := range vl {
		_, lst := one(asNode(l))
		items := asList(lst["items"])
		idx := colIdx
		if idx == nil {
			if len(items) > len(t.Cols) {
				return nil, sqlErr("42601", "INSERT has more expressions than target columns")
			}
			for i := range items {
				idx = append(idx, i)
			}
		}
		if len(items) != len(idx) {
			return nil, sqlErr("42601", "INSERT has %d expressions for %d target columns", len(items), len(idx))
		}
		row := make([]Value, len(t.Cols))
		for i, it := range items {
			if k, _ := one(asNode(it)); k == "SetToDefault" {
				continue
			}
			v, err := c.eval(asNode(it))
			if err != nil {
				return nil, err
			}
			cv, err := coerce(v, t.Cols[idx[i]].Type)
			if err != nil {
				return nil, err
			}
			row[idx[i]] = cv
		}
		newRows = append(newRows, row)
	}
	res := &Result{Tag: fmt.Sprintf("INSERT 0 %d", len(newRows))}
	if rl := asList(s.body["returningList"]); len(rl) > 0 {
		scope := []scopeEntry{{alias: t.Name, t: t}}
		ts, err := db.targets(rl, scope)
		if err != nil {
			return nil, err
		}
		for _, tg := range ts {
			res.Fields = append(res.Fields, tg.field)
		}
		for _, r := range newRows {
			c.scope = []scopeEntry{{alias: t.Name, t: t, row: r}}
			pr, err := db.project(ts, c)
			if err != nil {
				return nil, err
			}
			res.Rows = append(res.Rows, pr)
		}
	}
	t.Rows = append(t.Rows, newRows...)
	return res, nil
}

func (db *DB) execUpdate(s *Stmt, params []Param) (*Result, error) {
	t, err := db.relTable(asNode(s.body["relation"]))
	if err != nil {
		return nil, err
	}
	if len(asList(s.body["fromClause"])) > 0 {
		return nil, fmt.Errorf("%w: UPDATE ... FROM", ErrUnsupported)
	}
	alias := t.Name
	if a := asNode(asNode(s.body["relation"])["alias"]); a != nil {
		alias = a["aliasname"].(string)
	}
	c := &evalCtx{db: db, params: params}
	where := asNode(s.body["whereClause"])
	type upd struct {
		ri  int
		row []Value
	}
	var upds []upd
	for ri, row := range t.Rows {
		c.scope = []scopeEntry{{alias: alias, t: t, row: row}}
		ok, err := c.cond(where)
		if err != nil {
			return nil, err
		}
		if ok != 1 {
			continue
		}
		nr := append([]Value{}, row...)
		for _, it := range asList(s.body["targetList"]) {
			_, rt := one(asNode(it))
			ci := t.colIndex(rt["name"].(string))
			if ci < 0 {
				return nil, sqlErr("42703", "column %q does not exist", rt["name"])
			}
			v, err := c.eval(asNode(rt["val"]))
			if err != nil {
				return nil, err
			}
			cv, err := coerce(v, t.Cols[ci].Type)
			if err != nil {
				return nil, err
			}
			nr[ci] = cv
		}
		upds = append(upds, upd{ri, nr})
	}
	res := &Result{Tag: fmt.Sprintf("UPDATE %d", len(upds))}
	var ts []target
	if rl := asList(s.body["returningList"]); len(rl) > 0 {
		ts, err = db.targets(rl, []scopeEntry{{alias: alias, t: t}})
		if err != nil {
			return nil, err
		}
		for _, tg := range ts {
			res.Fields = append(res.Fields, tg.field)
		}
	}
	for _, u := range upds {
		t.Rows[u.ri] = u.row
		if ts != nil {
			c.scope = []scopeEntry{{alias: alias, t: t, row: u.row}}
			pr, err := db.project(ts, c)
			if err != nil {
				return nil, err
			}
			res.Rows = append(res.Rows, pr)
		}
	}
	return res, nil
}

func (db *DB) execDelete(s *Stmt, params []Param) (*Result, error) {
	t, err := db.relTable(asNode(s.body["relation"]))
	if err != nil {
		return nil, err
	}
	c := &evalCtx{db: db, params: params}
	where := asNode(s.body["whereClause"])
	var keep [][]Value
	n := 0
	for _, row := range t.Rows {
		c.scope = []scopeEntry{{alias: t.Name, t: t, row: row}}
		ok, err := c.cond(where)
		if err != nil {
			return nil, err
		}
		if ok == 1 {
			n++
		} else {
			keep = append(keep, row)
		}
	}
	t.Rows = keep
	return &Result{Tag: fmt.Sprintf("DELETE %d", n)}, nil
}

func (db *DB) execSelect(s *Stmt, params []Param) (*Result, error) {
	return db.execSelectIn(s, params, nil)
}

// execSelectIn evaluates a SELECT; outer holds the rows of enclosing statements (ext.go: sub-selects).
func (db *DB) execSelectIn(s *Stmt, params []Param, outer []scopeEntry) (*Result, error) {
	if res, handled, err := db.selectExt(s, params, outer); handled {
		return res, err
	}
	if op, _ := s.body["op"].(string); op != "" && op != "SETOP_NONE" {
		return nil, fmt.Errorf("%w: set operation", ErrUnsupported)
	}
	for _, k := range []string{"groupClause", "havingClause", "withClause", "distinctClause", "windowClause", "lockingClause"} {
		if s.body[k] != nil {
			return nil, fmt.Errorf("%w: %s", ErrUnsupported, k)
		}
	}
	scope, quals, err := db.fromScope(asList(s.body["fromClause"]))
	if err != nil {
		return nil, err
	}
	ts, err := db.targets(asList(s.body["targetList"]), scope)
	if err != nil {
		return nil, err
	}
	res := &Result{}
	for _, tg := range ts {
		res.Fields = append(res.Fields, tg.field)
	}
	c := &evalCtx{db: db, params: params, outer: outer}
	where := asNode(s.body["whereClause"])
	type outRow struct {
		vals []Value
		keys []Value
	}
	var rows []outRow
	sortBy := asList(s.body["sortClause"])
	var rec func(i int, cur []scopeEntry) error
	rec = func(i int, cur []scopeEntry) error {
		if i == len(scope) {
			c.scope = cur
			for _, q := range quals {
				ok, err := c.cond(q)
				if err != nil {
					return err
				}
				if ok != 1 {
					return nil
				}
			}
			ok, err := c.cond(where)
			if err != nil {
				return err
			}
			if ok != 1 {
				return nil
			}
			pr, err := db.project(ts, c)
			if err != nil {
				return err
			}
			or := outRow{vals: pr}
			for _, sb := range sortBy {
				_, sbn := one(asNode(sb))
				v, err := c.eval(asNode(sbn["node"]))
				if err != nil {
					return err
				}
				or.keys = append(or.keys, v.v)
			}
			rows = append(rows, or)
			return nil
		}
		for _, r := range scope[i].t.Rows {
			e := scope[i]
			e.row = r
			if err := rec(i+1, append(append([]scopeEntry{}, cur...), e)); err != nil {
				return err
			}
		}
		return nil
	}
	if len(scope) == 0 {
		c.scope = nil
		pr, err := db.project(ts, c)
		if err != nil {
			return nil, err
		}
		rows = append(rows, outRow{vals: pr})
	} else if err := rec(0, nil); err != nil {
		return nil, err
	}
	if len(sortBy) > 0 {
		var serr error
		sort.SliceStable(rows, func(a, b int) bool {
			for k := range rows[a].keys {
				_, sbn := one(asNode(sortBy[k]))
				desc := sbn["sortby_dir"] == "SORTBY_DESC"
				x, y := rows[a].keys[k], rows[b].keys[k]
				if x == nil || y == nil {
					if x == nil && y == nil {
						continue
					}
					return (y == nil) != desc
				}
				cv, err := cmpValues(x, y)
				if err != nil {
					serr = err
					return false
				}
				if cv != 0 {
					return (cv < 0) != desc
				}
			}
			return false
		})
		if serr != nil {
			return nil, serr
		}
	}
	off, lim := 0, -1
	if lo := asNode(s.body["limitOffset"]); lo != nil {
		v, err := c.eval(lo)
		if err != nil {
			return nil, err
		}
		x, err := coerce(v, Int8)
		if err != nil {
			return nil, err
		}
		off = int(x.(int64))
	}
	if lc := asNode(s.body["limitCount"]); lc != nil {
		v, err := c.eval(lc)
		if err != nil {
			return nil, err
		}
		if !v.isNull {
			x, err := coerce(v, Int8)
			if err != nil {
				return nil, err
			}
			lim = int(x.(int64))
		}
	}
	if off > len(rows) {
		off = len(rows)
	}
	rows = rows[off:]
	if lim >= 0 && lim < len(rows) {
		rows = rows[:lim]
	}
	for _, r := range rows {
		res.Rows = append(res.Rows, r.vals)
	}
	res.Tag = fmt.Sprintf("SELECT %d", len(res.Rows))
	return res, nil
}

// EncodeValue renders a value in the requested wire format (nil => NULL).
func EncodeValue(v Value, t ColType, binaryFmt bool) []byte {
	switch x := v.(type) {
	case nil:
		return nil
	case int64:
		if !binaryFmt {
			return []byte(strconv.FormatInt(x, 10))
		}
		if t == Int4 {
			b := make([]byte, 4)
			binary.BigEndian.PutUint32(b, uint32(int32(x)))
			return b
		}
		b := make([]byte, 8)
		binary.BigEndian.PutUint64(b, uint64(x))
		return b
	case string:
		return []byte(x)
	case []byte:
		if binaryFmt {
			return append([]byte{}, x...)
		}
		return []byte(`\x` + hex.EncodeToString(x))
	}
	return nil
}
