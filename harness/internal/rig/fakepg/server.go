package fakepg

import (
	"errors"
	"fmt"
	"io"
	"net"
	"sync"

	"github.com/jackc/pgx/v5/pgproto3"
)

// Received is one frontend message as it arrived at the database end.
type Received struct {
	Conn int
	Type string // Query, Parse, Bind, ...
	Raw  []byte // wire encoding (re-encoded by pgproto3 from the parsed message)
	SQL  string // for Query / Parse
	Bind *pgproto3.Bind
}

// Script is a canned reply for a statement (C12: arbitrary backend message sequences).
type Script func(sql string) []pgproto3.BackendMessage

// Server is the fake PostgreSQL server.
type Server struct {
	DB     *DB
	ln     net.Listener
	mu     sync.Mutex
	log    []Received
	rawIn  map[int]*[]byte
	rawOut map[int]*[]byte
	sent   []Sent
	// StartupAuth, when set, is sent instead of AuthenticationOk and the next client message (password) is read and recorded before continuing.
	StartupAuth pgproto3.BackendMessage
	conns       int
	scripts     map[string]Script
	rawScripts  map[string][]byte
	Unsupp      []string // statements that hit ErrUnsupported (rig-inconclusive)
	wg          sync.WaitGroup
	closed      bool
	OnResult    func(sql string, res *Result) // optional: tamper with results before they are sent
	byteaOutput string                        // "" / hex / escape (SetByteaOutput)
}

// NewServer starts a server on a loopback port.
func NewServer(db *DB) (*Server, error) {
	ln, err := net.Listen("tcp", "127.0.0.1:0")
	if err != nil {
		return nil, err
	}
	s := &Server{DB: db, ln: ln, rawIn: map[int]*[]byte{}, rawOut: map[int]*[]byte{}, scripts: map[string]Script{}}
	s.wg.Add(1)
	go s.accept()
	return s, nil
}

// Port the server listens on.
func (s *Server) Port() int { return s.ln.Addr().(*net.TCPAddr).Port }

// Close stops the server.
func (s *Server) Close() {
	s.mu.Lock()
	s.closed = true
	s.mu.Unlock()
	s.ln.Close()
}

// SetScript registers a canned reply for an exact statement text.
func (s *Server) SetScript(sql string, sc Script) {
	s.mu.Lock()
	s.scripts[sql] = sc
	s.mu.Unlock()
}

// SetRawScript registers raw bytes to be written verbatim in reply to an exact statement text (hostile database responses).
func (s *Server) SetRawScript(sql string, raw []byte) {
	s.mu.Lock()
	if s.rawScripts == nil {
		s.rawScripts = map[string][]byte{}
	}
	s.rawScripts[sql] = append([]byte{}, raw...)
	s.mu.Unlock()
}

// Log returns a copy of the received-message log.
func (s *Server) Log() []Received {
	s.mu.Lock()
	defer s.mu.Unlock()
	return append([]Received{}, s.log...)
}

// LogLen returns the current log length (to slice per-statement windows).
func (s *Server) LogLen() int {
	s.mu.Lock()
	defer s.mu.Unlock()
	return len(s.log)
}

// RawIn returns all bytes received on all connections, concatenated per connection.
func (s *Server) RawIn() [][]byte {
	s.mu.Lock()
	defer s.mu.Unlock()
	var out [][]byte
	for i := 1; i <= s.conns; i++ {
		if b := s.rawIn[i]; b != nil {
			out = append(out, append([]byte{}, (*b)...))
		}
	}
	return out
}

// Sent is one backend message as the database sent it.
type Sent struct {
	Conn int
	Type string
	Raw  []byte
}

// SentLog returns a copy of the sent-message log.
func (s *Server) SentLog() []Sent {
	s.mu.Lock()
	defer s.mu.Unlock()
	return append([]Sent{}, s.sent...)
}

// SentLen returns the current length of the sent-message log.
func (s *Server) SentLen() int {
	s.mu.Lock()
	defer s.mu.Unlock()
	return len(s.sent)
}

// RawOutConn returns every byte sent on the given connection (1-based).
func (s *Server) RawOutConn(id int) []byte {
	s.mu.Lock()
	defer s.mu.Unlock()
	if b := s.rawOut[id]; b != nil {
		return append([]byte{}, (*b)...)
	}
	return nil
}

// RawInConn returns every byte received on the given connection (1-based).
func (s *Server) RawInConn(id int) []byte {
	s.mu.Lock()
	defer s.mu.Unlock()
	if b := s.rawIn[id]; b != nil {
		return append([]byte{}, (*b)...)
	}
	return nil
}

// Conns returns the number of connections accepted so far.
func (s *Server) Conns() int {
	s.mu.Lock()
	defer s.mu.Unlock()
	return s.conns
}

// Unsupported returns statements the evaluator could not handle.
func (s *Server) Unsupported() []string {
	s.mu.Lock()
	defer s.mu.Unlock()
	return append([]string{}, s.Unsupp...)
}

func (s *Server) accept() {
	defer s.wg.Done()
	for {
		c, err := s.ln.Accept()
		if err != nil {
			return
		}
		s.mu.Lock()
		s.conns++
		id := s.conns
		buf := []byte{}
		s.rawIn[id] = &buf
		obuf := []byte{}
		s.rawOut[id] = &obuf
		s.mu.Unlock()
		go s.serve(id, c)
	}
}

type teeReader struct {
	r  io.Reader
	s  *Server
	id int
}

func (t *teeReader) Read(p []byte) (int, error) {
	n, err := t.r.Read(p)
	if n > 0 {
		t.s.mu.Lock()
		b := t.s.rawIn[t.id]
		*b = append(*b, p[:n]...)
		t.s.mu.Unlock()
	}
	return n, err
}

type teeWriter struct {
	w  io.Writer
	s  *Server
	id int
}

func (t *teeWriter) Write(p []byte) (int, error) {
	t.s.mu.Lock()
	b := t.s.rawOut[t.id]
	*b = append(*b, p...)
	t.s.mu.Unlock()
	return t.w.Write(p)
}

// sender wraps pgproto3.Backend.Send to log every message.
type sender struct {
	be *pgproto3.Backend
	s  *Server
	id int
}

func (x *sender) Send(m pgproto3.BackendMessage) {
	raw, _ := m.Encode(nil)
	x.s.mu.Lock()
	x.s.sent = append(x.s.sent, Sent{Conn: x.id, Type: fmt.Sprintf("%T", m)[len("*pgproto3."):], Raw: raw})
	x.s.mu.Unlock()
	x.be.Send(m)
}

type prepared struct {
	stmt      *Stmt
	paramOIDs []uint32
}

type portal struct {
	prep    *prepared
	params  []Param
	formats []int16
	res     *Result
	sent    int
	done    bool
}

func (s *Server) record(conn int, m pgproto3.FrontendMessage) {
	raw, _ := m.Encode(nil)
	r := Received{Conn: conn, Raw: raw, Type: fmt.Sprintf("%T", m)[len("*pgproto3."):]}
	switch x := m.(type) {
	case *pgproto3.Query:
		r.SQL = x.String
	case *pgproto3.Parse:
		r.SQL = x.Query
	case *pgproto3.Bind:
		cp := *x
		cp.Parameters = make([][]byte, len(x.Parameters))
		for i, p := range x.Parameters {
			if p != nil {
				cp.Parameters[i] = append([]byte{}, p...)
			}
		}
		cp.ParameterFormatCodes = append([]int16{}, x.ParameterFormatCodes...)
		cp.ResultFormatCodes = append([]int16{}, x.ResultFormatCodes...)
		r.Bind = &cp
	}
	s.mu.Lock()
	s.log = append(s.log, r)
	s.mu.Unlock()
}

func errResp(err error) *pgproto3.ErrorResponse {
	var se *SQLError
	if errors.As(err, &se) {
		return &pgproto3.ErrorResponse{Severity: "ERROR", SeverityUnlocalized: "ERROR", Code: se.Code, Message: se.Msg}
	}
	return &pgproto3.ErrorResponse{Severity: "ERROR", SeverityUnlocalized: "ERROR", Code: "0A000", Message: err.Error()}
}

func fmtFor(formats []int16, i int) bool {
	switch len(formats) {
	case 0:
		return false
	case 1:
		return formats[0] == 1
	default:
		if i < len(formats) {
			return formats[i] == 1
		}
		return false
	}
}

func rowDesc(fields []Field, formats []int16) *pgproto3.RowDescription {
	rd := &pgproto3.RowDescription{}
	for i, f := range fields {
		size := int16(-1)
		if f.Type == Int4 {
			size = 4
		} else if f.Type == Int8 {
			size = 8
		}
		format := int16(0)
		if fmtFor(formats, i) {
			format = 1
		}
		tableOID := uint32(0)
		if f.Table != "" {
			tableOID = 16384
		}
		rd.Fields = append(rd.Fields, pgproto3.FieldDescription{Name: []byte(f.Name), TableOID: tableOID, TableAttributeNumber: uint16(f.Col), DataTypeOID: f.Type.OID(), DataTypeSize: size, TypeModifier: -1, Format: format})
	}
	return rd
}

func dataRow(fields []Field, row []Value, formats []int16) *pgproto3.DataRow {
	dr := &pgproto3.DataRow{Values: make([][]byte, len(row))}
	for i, v := range row {
		dr.Values[i] = EncodeValue(v, fields[i].Type, fmtFor(formats, i))
	}
	return dr
}

func (s *Server) noteUnsupported(sql string, err error) {
	if errors.Is(err, ErrUnsupported) {
		s.mu.Lock()
		if len(s.Unsupp) < 200 {
			s.Unsupp = append(s.Unsupp, sql+" -- "+err.Error())
		}
		s.mu.Unlock()
	}
}

// beWrap routes Send through the logging sender while keeping the rest of the Backend API.
type beWrap struct {
	*pgproto3.Backend
	snd *sender
}

// Send logs and sends.
func (b *beWrap) Send(m pgproto3.BackendMessage) { b.snd.Send(m) }

func (s *Server) serve(id int, c net.Conn) {
	defer c.Close()
	defer func() {
		// a panic inside the independent codec (pgproto3) must not take the monitor down; the connection just ends
		if p := recover(); p != nil {
			s.mu.Lock()
			s.Unsupp = append(s.Unsupp, fmt.Sprintf("fakepg codec panic: %v", p))
			s.mu.Unlock()
		}
	}()
	rawBE := pgproto3.NewBackend(&teeReader{r: c, s: s, id: id}, &teeWriter{w: c, s: s, id: id})
	be := &beWrap{Backend: rawBE, snd: &sender{be: rawBE, s: s, id: id}}
	for {
		sm, err := be.ReceiveStartupMessage()
		if err != nil {
			return
		}
		switch sm.(type) {
		case *pgproto3.SSLRequest, *pgproto3.GSSEncRequest:
			c.Write([]byte{'N'})
			continue
		case *pgproto3.CancelRequest:
			return
		}
		break
	}
	if s.StartupAuth != nil {
		be.Send(s.StartupAuth)
		if be.Flush() != nil {
			return
		}
		switch s.StartupAuth.(type) {
		case *pgproto3.AuthenticationCleartextPassword:
			rawBE.SetAuthType(pgproto3.AuthTypeCleartextPassword)
		case *pgproto3.AuthenticationMD5Password:
			rawBE.SetAuthType(pgproto3.AuthTypeMD5Password)
		}
		pm, err := be.Receive()
		if err != nil {
			return
		}
		s.record(id, pm)
	}
	be.Send(&pgproto3.AuthenticationOk{})
	be.Send(&pgproto3.ParameterStatus{Name: "server_version", Value: "14.0 (fakepg)"})
	be.Send(&pgproto3.ParameterStatus{Name: "client_encoding", Value: "UTF8"})
	be.Send(&pgproto3.ParameterStatus{Name: "standard_conforming_strings", Value: "on"})
	be.Send(&pgproto3.BackendKeyData{ProcessID: uint32(1000 + id), SecretKey: 12345})
	be.Send(&pgproto3.ReadyForQuery{TxStatus: 'I'})
	if be.Flush() != nil {
		return
	}
	preps := map[string]*prepared{}
	portals := map[string]*portal{}
	skipToSync := false
	for {
		m, err := be.Receive()
		if err != nil {
			return
		}
		s.record(id, m)
		if skipToSync {
			if _, ok := m.(*pgproto3.Sync); ok {
				skipToSync = false
				be.Send(&pgproto3.ReadyForQuery{TxStatus: 'I'})
				if be.Flush() != nil {
					return
				}
			}
			continue
		}
		fail := func(sql string, err error) {
			s.noteUnsupported(sql, err)
			be.Send(errResp(err))
			skipToSync = true
		}
		switch x := m.(type) {
		case *pgproto3.Terminate:
			return
		case *pgproto3.Query:
			s.mu.Lock()
			sc := s.scripts[x.String]
			raw, isRaw := s.rawScripts[x.String]
			s.mu.Unlock()
			if isRaw {
				if be.Flush() != nil {
					return
				}
				if _, err := c.Write(raw); err != nil {
					return
				}
				continue
			}
			if sc != nil {
				for _, bm := range sc(x.String) {
					be.Send(bm)
				}
				if be.Flush() != nil {
					return
				}
				continue
			}
			st, err := Parse(x.String)
			var res *Result
			if err == nil {
				if st.Kind == "Empty" {
					be.Send(&pgproto3.EmptyQueryResponse{})
					be.Send(&pgproto3.ReadyForQuery{TxStatus: 'I'})
					if be.Flush() != nil {
						return
					}
					continue
				}
				res, err = s.DB.Exec(st, nil)
			}
			if err != nil {
				s.noteUnsupported(x.String, err)
				be.Send(errResp(err))
			} else {
				if s.OnResult != nil {
					s.OnResult(x.String, res)
				}
				if res.Fields != nil {
					be.Send(rowDesc(res.Fields, nil))
					for _, r := range res.Rows {
						be.Send(s.outRow(dataRow(res.Fields, r, nil), res.Fields, nil))
					}
				}
				be.Send(&pgproto3.CommandComplete{CommandTag: []byte(res.Tag)})
			}
			be.Send(&pgproto3.ReadyForQuery{TxStatus: 'I'})
			if be.Flush() != nil {
				return
			}
		case *pgproto3.Parse:
			st, err := Parse(x.Query)
			if err != nil {
				fail(x.Query, err)
				continue
			}
			preps[x.Name] = &prepared{stmt: st, paramOIDs: append([]uint32{}, x.ParameterOIDs...)}
			be.Send(&pgproto3.ParseComplete{})
		case *pgproto3.Bind:
			p := preps[x.PreparedStatement]
			if p == nil {
				fail("", sqlErr("26000", "prepared statement %q does not exist", x.PreparedStatement))
				continue
			}
			n := p.stmt.NumParams()
			if len(x.Parameters) != n {
				fail(p.stmt.SQL, sqlErr("08P01", "bind message supplies %d parameters, but prepared statement requires %d", len(x.Parameters), n))
				continue
			}
			po := &portal{prep: p, formats: append([]int16{}, x.ResultFormatCodes...)}
			for i, pv := range x.Parameters {
				po.params = append(po.params, Param{Null: pv == nil, Binary: fmtFor(x.ParameterFormatCodes, i), Data: append([]byte{}, pv...)})
			}
			portals[x.DestinationPortal] = po
			be.Send(&pgproto3.BindComplete{})
		case *pgproto3.Describe:
			if x.ObjectType == 'S' {
				p := preps[x.Name]
				if p == nil {
					fail("", sqlErr("26000", "prepared statement %q does not exist", x.Name))
					continue
				}
				n := p.stmt.NumParams()
				pd := &pgproto3.ParameterDescription{ParameterOIDs: make([]uint32, n)}
				for i := range pd.ParameterOIDs {
					if i < len(p.paramOIDs) && p.paramOIDs[i] != 0 {
						pd.ParameterOIDs[i] = p.paramOIDs[i]
					} else {
						pd.ParameterOIDs[i] = 25
					}
				}
				be.Send(pd)
				f, err := s.DB.Describe(p.stmt)
				if err != nil {
					fail(p.stmt.SQL, err)
					continue
				}
				if f == nil {
					be.Send(&pgproto3.NoData{})
				} else {
					be.Send(rowDesc(f, nil))
				}
			} else {
				po := portals[x.Name]
				if po == nil {
					fail("", sqlErr("34000", "portal %q does not exist", x.Name))
					continue
				}
				f, err := s.DB.Describe(po.prep.stmt)
				if err != nil {
					fail(po.prep.stmt.SQL, err)
					continue
				}
				if f == nil {
					be.Send(&pgproto3.NoData{})
				} else {
					be.Send(rowDesc(f, po.formats))
				}
			}
		case *pgproto3.Execute:
			po := portals[x.Portal]
			if po == nil {
				fail("", sqlErr("34000", "portal %q does not exist", x.Portal))
				continue
			}
			if po.res == nil {
				res, err := s.DB.Exec(po.prep.stmt, po.params)
				if err != nil {
					fail(po.prep.stmt.SQL, err)
					continue
				}
				if s.OnResult != nil {
					s.OnResult(po.prep.stmt.SQL, res)
				}
				po.res = res
			}
			if po.res.Fields != nil {
				max := int(x.MaxRows)
				n := 0
				for po.sent < len(po.res.Rows) && (max == 0 || n < max) {
					be.Send(s.outRow(dataRow(po.res.Fields, po.res.Rows[po.sent], po.formats), po.res.Fields, po.formats))
					po.sent++
					n++
				}
				if po.sent < len(po.res.Rows) {
					be.Send(&pgproto3.PortalSuspended{})
					continue
				}
			}
			be.Send(&pgproto3.CommandComplete{CommandTag: []byte(po.res.Tag)})
		case *pgproto3.Close:
			if x.ObjectType == 'S' {
				delete(preps, x.Name)
			} else {
				delete(portals, x.Name)
			}
			be.Send(&pgproto3.CloseComplete{})
		case *pgproto3.Flush:
			if be.Flush() != nil {
				return
			}
		case *pgproto3.CopyData:
			// recorded only
		case *pgproto3.CopyDone:
			be.Send(&pgproto3.CommandComplete{CommandTag: []byte("COPY 0")})
			be.Send(&pgproto3.ReadyForQuery{TxStatus: 'I'})
			if be.Flush() != nil {
				return
			}
		case *pgproto3.CopyFail:
			be.Send(&pgproto3.ErrorResponse{Severity: "ERROR", Code: "57014", Message: "COPY from stdin failed: " + x.Message})
			be.Send(&pgproto3.ReadyForQuery{TxStatus: 'I'})
			if be.Flush() != nil {
				return
			}
		case *pgproto3.FunctionCall:
			be.Send(&pgproto3.FunctionCallResponse{Result: []byte("fnresult")})
			be.Send(&pgproto3.ReadyForQuery{TxStatus: 'I'})
			if be.Flush() != nil {
				return
			}
		case *pgproto3.Sync:
			be.Send(&pgproto3.ReadyForQuery{TxStatus: 'I'})
			if be.Flush() != nil {
				return
			}
		default:
			be.Send(&pgproto3.ErrorResponse{Severity: "ERROR", Code: "0A000", Message: fmt.Sprintf("fakepg: message %T not supported", m)})
			be.Send(&pgproto3.ReadyForQuery{TxStatus: 'I'})
			if be.Flush() != nil {
				return
			}
		}
	}
}
