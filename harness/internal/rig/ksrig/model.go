package ksrig

// Reference model of key histories (used by the C06 monitor, and as a workload vocabulary by C07):
// per (key kind, client id) an ordered list of generated keys, each with a "destroyed" flag. The model is
// deliberately tiny: it knows nothing about files, key rings, caches or indices inside Acra. Key values are
// never predicted; they are read back through the public getters (or supplied by the harness for
// SaveDataEncryptionKeys) and stored here only to be compared by value later.
//
// ModelKindOps is the uniform vocabulary over both keystore formats: which public keystore method is
// "generate", "get current", "get all", "destroy current", "destroy rotated by index" for each of the six kinds.

import (
	"bytes"
	"path/filepath"
	"sort"
	"time"

	"github.com/cossacklabs/acra/keystore"
	"github.com/cossacklabs/themis/gothemis/keys"
)

// ModelKind is one of the six key kinds the properties quantify over.
type ModelKind int

// The six kinds.
const (
	ModelStoragePair ModelKind = iota // per-client storage key pair (AcraStruct)
	ModelStorageSym                   // per-client storage symmetric key (AcraBlock)
	ModelSearchHMAC                   // per-client searchable-encryption HMAC key
	ModelPoisonPair                   // poison record key pair
	ModelPoisonSym                    // poison record symmetric key
	ModelAuditLog                     // audit log key
)

// ModelKinds lists all kinds.
var ModelKinds = []ModelKind{ModelStoragePair, ModelStorageSym, ModelSearchHMAC, ModelPoisonPair, ModelPoisonSym, ModelAuditLog}

func (k ModelKind) String() string {
	return [...]string{"storage-pair", "storage-sym", "search-hmac", "poison-pair", "poison-sym", "audit-log"}[k]
}

// PerClient reports whether keys of this kind belong to a client id.
func (k ModelKind) PerClient() bool { return k <= ModelSearchHMAC }

// IsPair reports whether the kind is an asymmetric key pair (the secret is the private key).
func (k ModelKind) IsPair() bool { return k == ModelStoragePair || k == ModelPoisonPair }

// HasGetAll reports whether the public API offers a "all keys, newest first" getter for this kind.
func (k ModelKind) HasGetAll() bool { return k != ModelSearchHMAC && k != ModelAuditLog }

// HasDestroy reports whether the public API offers destruction for this kind.
func (k ModelKind) HasDestroy() bool { return k != ModelAuditLog }

// ModelGenerate calls the kind's generate/rotate method.
func ModelGenerate(ks FullKeyStore, k ModelKind, id []byte) error {
	switch k {
	case ModelStoragePair:
		return ks.GenerateDataEncryptionKeys(id)
	case ModelStorageSym:
		return ks.GenerateClientIDSymmetricKey(id)
	case ModelSearchHMAC:
		return ks.GenerateHmacKey(id)
	case ModelPoisonPair:
		return ks.GeneratePoisonKeyPair()
	case ModelPoisonSym:
		return ks.GeneratePoisonSymmetricKey()
	default:
		return ks.GenerateLogKey()
	}
}

// ModelCurrent calls the kind's "current key" getter; secret is the private or symmetric key value (a copy),
// pub the public key of pairs when the API returns it in the same call (poison pair), else nil.
func ModelCurrent(ks FullKeyStore, k ModelKind, id []byte) (secret, pub []byte, err error) {
	switch k {
	case ModelStoragePair:
		p, e := ks.GetServerDecryptionPrivateKey(id)
		if e != nil {
			return nil, nil, e
		}
		if p == nil {
			return nil, nil, nil
		}
		return append([]byte{}, p.Value...), nil, nil
	case ModelStorageSym:
		b, e := ks.GetClientIDSymmetricKey(id)
		return append([]byte{}, b...), nil, e
	case ModelSearchHMAC:
		b, e := ks.GetHMACSecretKey(id)
		return append([]byte{}, b...), nil, e
	case ModelPoisonPair:
		kp, e := ks.GetPoisonKeyPair()
		if e != nil {
			return nil, nil, e
		}
		if kp == nil || kp.Private == nil {
			return nil, nil, nil
		}
		var pb []byte
		if kp.Public != nil {
			pb = append([]byte{}, kp.Public.Value...)
		}
		return append([]byte{}, kp.Private.Value...), pb, nil
	case ModelPoisonSym:
		b, e := ks.GetPoisonSymmetricKey()
		return append([]byte{}, b...), nil, e
	default:
		b, e := ks.GetLogSecretKey()
		return append([]byte{}, b...), nil, e
	}
}

// ModelCurrentPublic returns the current public key of a pair kind.
func ModelCurrentPublic(ks FullKeyStore, k ModelKind, id []byte) ([]byte, error) {
	switch k {
	case ModelStoragePair:
		p, e := ks.GetClientIDEncryptionPublicKey(id)
		if e != nil || p == nil {
			return nil, e
		}
		return append([]byte{}, p.Value...), nil
	case ModelPoisonPair:
		kp, e := ks.GetPoisonKeyPair()
		if e != nil || kp == nil || kp.Public == nil {
			return nil, e
		}
		return append([]byte{}, kp.Public.Value...), nil
	}
	return nil, nil
}

// ModelAll calls the kind's "all keys, newest first" getter (only for kinds with HasGetAll).
func ModelAll(ks FullKeyStore, k ModelKind, id []byte) ([][]byte, error) {
	priv := func(ps []*keys.PrivateKey, e error) ([][]byte, error) {
		if e != nil {
			return nil, e
		}
		out := make([][]byte, 0, len(ps))
		for _, p := range ps {
			if p == nil {
				out = append(out, nil)
				continue
			}
			out = append(out, append([]byte{}, p.Value...))
		}
		return out, nil
	}
	sym := func(bs [][]byte, e error) ([][]byte, error) {
		if e != nil {
			return nil, e
		}
		out := make([][]byte, 0, len(bs))
		for _, b := range bs {
			out = append(out, append([]byte{}, b...))
		}
		return out, nil
	}
	switch k {
	case ModelStoragePair:
		return priv(ks.GetServerDecryptionPrivateKeys(id))
	case ModelStorageSym:
		return sym(ks.GetClientIDSymmetricKeys(id))
	case ModelPoisonPair:
		return priv(ks.GetPoisonPrivateKeys())
	case ModelPoisonSym:
		return sym(ks.GetPoisonSymmetricKeys())
	}
	return nil, nil
}

// ModelDestroyCurrent calls the kind's destroy-current method.
func ModelDestroyCurrent(ks FullKeyStore, k ModelKind, id []byte) error {
	switch k {
	case ModelStoragePair:
		return ks.DestroyClientIDEncryptionKeyPair(id)
	case ModelStorageSym:
		return ks.DestroyClientIDSymmetricKey(id)
	case ModelSearchHMAC:
		return ks.DestroyHmacSecretKey(id)
	case ModelPoisonPair:
		return ks.DestroyPoisonKeyPair()
	case ModelPoisonSym:
		return ks.DestroyPoisonSymmetricKey()
	}
	return nil
}

// ModelDestroyRotated calls the kind's destroy-rotated-by-index method.
func ModelDestroyRotated(ks FullKeyStore, k ModelKind, id []byte, index int) error {
	switch k {
	case ModelStoragePair:
		return ks.DestroyRotatedClientIDEncryptionKeyPair(id, index)
	case ModelStorageSym:
		return ks.DestroyRotatedClientIDSymmetricKey(id, index)
	case ModelSearchHMAC:
		return ks.DestroyRotatedHmacSecretKey(id, index)
	case ModelPoisonPair:
		return ks.DestroyRotatedPoisonKeyPair(index)
	case ModelPoisonSym:
		return ks.DestroyRotatedPoisonSymmetricKey(index)
	}
	return nil
}

// ModelV1FileName is the v1 private-directory file (relative) that holds the current secret of the kind.
func ModelV1FileName(k ModelKind, id []byte) string {
	switch k {
	case ModelStoragePair:
		return string(id) + "_storage"
	case ModelStorageSym:
		return string(id) + "_storage_sym"
	case ModelSearchHMAC:
		return string(id) + "_hmac"
	case ModelPoisonPair:
		return ".poison_key/poison_key"
	case ModelPoisonSym:
		return ".poison_key/poison_key_sym"
	default:
		return "secure_log_key"
	}
}

// ModelV2RingPath is the v2 key ring path of the kind.
func ModelV2RingPath(k ModelKind, id []byte) string {
	switch k {
	case ModelStoragePair:
		return filepath.Join("client", string(id), "storage")
	case ModelStorageSym:
		return filepath.Join("client", string(id), "storage-sym")
	case ModelSearchHMAC:
		return filepath.Join("client", string(id), "hmac-sym")
	case ModelPoisonPair:
		return "poison-record"
	case ModelPoisonSym:
		return "poison-record-sym"
	default:
		return "audit-log"
	}
}

// ModelListedEntry is one line of ListRotatedKeys that belongs to a (kind, client).
type ModelListedEntry struct {
	Index int
	Time  time.Time
}

// ModelFilterRotated picks from a ListRotatedKeys result the entries of (kind, client), in the order the
// listing gave them. v2 selects by ring path (KeyID); v1 by purpose, client id and — for the poison pair, whose
// public half is listed under the same purpose — key id.
func ModelFilterRotated(descr []keystore.KeyDescription, v2 bool, k ModelKind, id []byte) []ModelListedEntry {
	var out []ModelListedEntry
	for _, d := range descr {
		ok := false
		if v2 {
			ok = d.KeyID == ModelV2RingPath(k, id)
		} else {
			switch k {
			case ModelStoragePair:
				ok = d.Purpose == keystore.PurposeStorageClientPrivateKey && d.ClientID == string(id)
			case ModelStorageSym:
				ok = d.Purpose == keystore.PurposeStorageClientSymmetricKey && d.ClientID == string(id)
			case ModelSearchHMAC:
				ok = d.Purpose == keystore.PurposeSearchHMAC && d.ClientID == string(id)
			case ModelPoisonPair:
				ok = d.Purpose == keystore.PurposePoisonRecordKeyPair && d.KeyID == "poison_key"
			case ModelPoisonSym:
				ok = d.Purpose == keystore.PurposePoisonRecordSymmetricKey
			case ModelAuditLog:
				ok = d.Purpose == keystore.PurposeAuditLog
			}
		}
		if !ok {
			continue
		}
		e := ModelListedEntry{Index: d.Index}
		if d.CreationTime != nil {
			e.Time = *d.CreationTime
		}
		out = append(out, e)
	}
	return out
}

// ---------------------------------------------------------------------------------------------

// ModelKey is one generated key of a history.
type ModelKey struct {
	Gen       int    // 0-based generation order inside its history
	Secret    []byte // private or symmetric key value as read back right after generation (never predicted)
	Public    []byte // public key (pairs), if known
	Destroyed bool
	// ListedAt is the creation time the rotated-key listing showed for this key the first time it was listed
	// (v1: unique, the name of the rotated file; v2: second resolution, not unique). Zero until listed.
	ListedAt time.Time
	Supplied bool // value was supplied by the harness (SaveDataEncryptionKeys), not generated by Acra
}

// ModelHistory is the ordered list of keys generated for one (kind, client).
type ModelHistory struct {
	Kind   ModelKind
	Client []byte
	Keys   []*ModelKey
}

// ModelAdd appends a newly generated key.
func (h *ModelHistory) ModelAdd(secret, public []byte, supplied bool) *ModelKey {
	k := &ModelKey{Gen: len(h.Keys), Secret: append([]byte{}, secret...), Public: append([]byte{}, public...), Supplied: supplied}
	h.Keys = append(h.Keys, k)
	return k
}

// Newest is the most recently generated key, destroyed or not (nil if none).
func (h *ModelHistory) Newest() *ModelKey {
	if len(h.Keys) == 0 {
		return nil
	}
	return h.Keys[len(h.Keys)-1]
}

// Survivors returns the surviving keys newest first.
func (h *ModelHistory) Survivors() []*ModelKey {
	var out []*ModelKey
	for i := len(h.Keys) - 1; i >= 0; i-- {
		if !h.Keys[i].Destroyed {
			out = append(out, h.Keys[i])
		}
	}
	return out
}

// NewestSurvivor is the first of Survivors (nil if none).
func (h *ModelHistory) NewestSurvivor() *ModelKey {
	if s := h.Survivors(); len(s) > 0 {
		return s[0]
	}
	return nil
}

// Rotated returns the surviving keys other than the most recently generated one, OLDEST first: these are the
// keys a "rotated keys" listing can show (index 2, 3, ... in both formats are numbered oldest first).
func (h *ModelHistory) Rotated() []*ModelKey {
	var out []*ModelKey
	for i := 0; i < len(h.Keys)-1; i++ {
		if !h.Keys[i].Destroyed {
			out = append(out, h.Keys[i])
		}
	}
	return out
}

// ByValue finds the key with this secret value.
func (h *ModelHistory) ByValue(secret []byte) *ModelKey {
	if len(secret) == 0 {
		return nil
	}
	for _, k := range h.Keys {
		if bytes.Equal(k.Secret, secret) {
			return k
		}
	}
	return nil
}

// ModelID names a history.
type ModelID struct {
	Kind   ModelKind
	Client string
}

// Model is the set of histories of one keystore.
type Model struct {
	H map[ModelID]*ModelHistory
}

// NewModel makes an empty model.
func NewModel() *Model { return &Model{H: map[ModelID]*ModelHistory{}} }

// History returns (creating if needed) the history of (kind, client); client is ignored for global kinds.
func (m *Model) History(k ModelKind, client []byte) *ModelHistory {
	id := ModelID{Kind: k}
	if k.PerClient() {
		id.Client = string(client)
	}
	h := m.H[id]
	if h == nil {
		h = &ModelHistory{Kind: k}
		if k.PerClient() {
			h.Client = append([]byte{}, client...)
		}
		m.H[id] = h
	}
	return h
}

// All returns the histories in a stable order.
func (m *Model) All() []*ModelHistory {
	ids := make([]ModelID, 0, len(m.H))
	for id := range m.H {
		ids = append(ids, id)
	}
	sort.Slice(ids, func(i, j int) bool {
		if ids[i].Kind != ids[j].Kind {
			return ids[i].Kind < ids[j].Kind
		}
		return ids[i].Client < ids[j].Client
	})
	out := make([]*ModelHistory, 0, len(ids))
	for _, id := range ids {
		out = append(out, m.H[id])
	}
	return out
}
