package ksrig

// Recording wrappers around the two storage interfaces the keystores are built on:
//   - keystore/filesystem.Storage (keystore v1)            -> RecStorage
//   - keystore/v2/keystore/filesystem/backend/api.Backend  -> RecBackend
// Every call is appended to a shared RecLog with its paths, a COPY of its byte arguments / results
// (the keystores zeroize buffers after use) and its outcome. The wrappers never change behaviour.

import (
	"os"
	"sync"

	"github.com/cossacklabs/acra/keystore/filesystem"
	backendAPI "github.com/cossacklabs/acra/keystore/v2/keystore/filesystem/backend/api"
)

// RecCall is one logged storage call.
type RecCall struct {
	Seq    int64       // position in the log (0-based)
	Handle string      // name of the wrapper instance that made the call
	Op     string      // method name: WriteFile, Copy, Put, Get, Rename, ...
	Path   string      // first path argument ("" if none)
	Path2  string      // second path argument (Rename/Link/Copy destination; "" if none)
	Data   []byte      // bytes handed to storage (WriteFile/Put data; for Copy: content of the source at call time)
	Out    []byte      // bytes returned by storage (ReadFile/Get), copied
	Perm   os.FileMode // permission argument where the method has one
	Err    string      // error text ("" on success)
}

// RecIsWrite reports whether the call hands key material to storage.
func (c *RecCall) RecIsWrite() bool { return c.Op == "WriteFile" || c.Op == "Copy" || c.Op == "Put" }

// RecLog is a concurrency-safe, append-only call log shared by any number of wrappers.
type RecLog struct {
	mu    sync.Mutex
	calls []RecCall
	// OnCall, if set, is invoked (under the log's lock) for every recorded call.
	OnCall func(c *RecCall)
}

// NewRecLog makes an empty log.
func NewRecLog() *RecLog { return &RecLog{} }

func (l *RecLog) add(c RecCall) {
	l.mu.Lock()
	c.Seq = int64(len(l.calls))
	l.calls = append(l.calls, c)
	if l.OnCall != nil {
		l.OnCall(&l.calls[len(l.calls)-1])
	}
	l.mu.Unlock()
}

// RecAppend lets other recorders (e.g. a key-cache recorder) share this log; Seq is assigned here.
func (l *RecLog) RecAppend(c RecCall) { l.add(c) }

// Len is the number of calls logged so far.
func (l *RecLog) Len() int { l.mu.Lock(); defer l.mu.Unlock(); return len(l.calls) }

// Since returns a copy of the calls with Seq >= n.
func (l *RecLog) Since(n int) []RecCall {
	l.mu.Lock()
	defer l.mu.Unlock()
	if n < 0 {
		n = 0
	}
	if n > len(l.calls) {
		n = len(l.calls)
	}
	return append([]RecCall(nil), l.calls[n:]...)
}

// Calls returns a copy of the whole log.
func (l *RecLog) Calls() []RecCall { return l.Since(0) }

// Reset forgets everything logged so far.
func (l *RecLog) Reset() { l.mu.Lock(); l.calls = nil; l.mu.Unlock() }

func recErr(err error) string {
	if err == nil {
		return ""
	}
	return err.Error()
}

func recCopy(b []byte) []byte {
	if b == nil {
		return nil
	}
	return append([]byte{}, b...)
}

// ---------------------------------------------------------------------------------------------
// keystore v1

// RecStorage records every call of a filesystem.Storage.
type RecStorage struct {
	Inner  filesystem.Storage
	Log    *RecLog
	Handle string
}

// NewRecStorage wraps inner (nil = the real filesystem, filesystem.DummyStorage).
func NewRecStorage(inner filesystem.Storage, log *RecLog, handle string) *RecStorage {
	if inner == nil {
		inner = &filesystem.DummyStorage{}
	}
	if log == nil {
		log = NewRecLog()
	}
	return &RecStorage{Inner: inner, Log: log, Handle: handle}
}

var _ filesystem.Storage = (*RecStorage)(nil)

// Stat implements filesystem.Storage.
func (s *RecStorage) Stat(path string) (os.FileInfo, error) {
	fi, err := s.Inner.Stat(path)
	s.Log.add(RecCall{Handle: s.Handle, Op: "Stat", Path: path, Err: recErr(err)})
	return fi, err
}

// Exists implements filesystem.Storage.
func (s *RecStorage) Exists(path string) (bool, error) {
	ok, err := s.Inner.Exists(path)
	s.Log.add(RecCall{Handle: s.Handle, Op: "Exists", Path: path, Err: recErr(err)})
	return ok, err
}

// ReadDir implements filesystem.Storage.
func (s *RecStorage) ReadDir(path string) ([]os.FileInfo, error) {
	fis, err := s.Inner.ReadDir(path)
	s.Log.add(RecCall{Handle: s.Handle, Op: "ReadDir", Path: path, Err: recErr(err)})
	return fis, err
}

// MkdirAll implements filesystem.Storage.
func (s *RecStorage) MkdirAll(path string, perm os.FileMode) error {
	err := s.Inner.MkdirAll(path, perm)
	s.Log.add(RecCall{Handle: s.Handle, Op: "MkdirAll", Path: path, Perm: perm, Err: recErr(err)})
	return err
}

// Rename implements filesystem.Storage.
func (s *RecStorage) Rename(oldpath, newpath string) error {
	err := s.Inner.Rename(oldpath, newpath)
	s.Log.add(RecCall{Handle: s.Handle, Op: "Rename", Path: oldpath, Path2: newpath, Err: recErr(err)})
	return err
}

// TempFile implements filesystem.Storage. Path is the pattern, Path2 the name that was created.
func (s *RecStorage) TempFile(pattern string, perm os.FileMode) (string, error) {
	name, err := s.Inner.TempFile(pattern, perm)
	s.Log.add(RecCall{Handle: s.Handle, Op: "TempFile", Path: pattern, Path2: name, Perm: perm, Err: recErr(err)})
	return name, err
}

// TempDir implements filesystem.Storage. Path is the pattern, Path2 the name that was created.
func (s *RecStorage) TempDir(pattern string, perm os.FileMode) (string, error) {
	name, err := s.Inner.TempDir(pattern, perm)
	s.Log.add(RecCall{Handle: s.Handle, Op: "TempDir", Path: pattern, Path2: name, Perm: perm, Err: recErr(err)})
	return name, err
}

// Link implements filesystem.Storage.
func (s *RecStorage) Link(oldpath, newpath string) error {
	err := s.Inner.Link(oldpath, newpath)
	s.Log.add(RecCall{Handle: s.Handle, Op: "Link", Path: oldpath, Path2: newpath, Err: recErr(err)})
	return err
}

// Copy implements filesystem.Storage. The content of src at call time is logged as Data.
func (s *RecStorage) Copy(src, dst string) error {
	content, _ := s.Inner.ReadFile(src)
	err := s.Inner.Copy(src, dst)
	s.Log.add(RecCall{Handle: s.Handle, Op: "Copy", Path: src, Path2: dst, Data: recCopy(content), Err: recErr(err)})
	return err
}

// ReadFile implements filesystem.Storage.
func (s *RecStorage) ReadFile(path string) ([]byte, error) {
	b, err := s.Inner.ReadFile(path)
	s.Log.add(RecCall{Handle: s.Handle, Op: "ReadFile", Path: path, Out: recCopy(b), Err: recErr(err)})
	return b, err
}

// WriteFile implements filesystem.Storage.
func (s *RecStorage) WriteFile(path string, data []byte, perm os.FileMode) error {
	cp := recCopy(data)
	err := s.Inner.WriteFile(path, data, perm)
	s.Log.add(RecCall{Handle: s.Handle, Op: "WriteFile", Path: path, Data: cp, Perm: perm, Err: recErr(err)})
	return err
}

// Remove implements filesystem.Storage.
func (s *RecStorage) Remove(path string) error {
	err := s.Inner.Remove(path)
	s.Log.add(RecCall{Handle: s.Handle, Op: "Remove", Path: path, Err: recErr(err)})
	return err
}

// RemoveAll implements filesystem.Storage.
func (s *RecStorage) RemoveAll(path string) error {
	err := s.Inner.RemoveAll(path)
	s.Log.add(RecCall{Handle: s.Handle, Op: "RemoveAll", Path: path, Err: recErr(err)})
	return err
}

// ---------------------------------------------------------------------------------------------
// keystore v2

// RecBackend records every call of a v2 backend.
type RecBackend struct {
	Inner  backendAPI.Backend
	Log    *RecLog
	Handle string
	// KeepOpen makes Close() a logged no-op, so that several keystore handles (each closes "its" backend,
	// also from a finalizer) can be opened one after another over one shared inner backend such as InMemory.
	KeepOpen bool
	// GetHook, if set, may replace the bytes a successful Get returns (used to present a tampered stored file
	// to the keystore without rewriting the inner backend). The log keeps what is handed to the keystore.
	GetHook func(path string, data []byte) []byte
}

// NewRecBackend wraps inner.
func NewRecBackend(inner backendAPI.Backend, log *RecLog, handle string) *RecBackend {
	if log == nil {
		log = NewRecLog()
	}
	return &RecBackend{Inner: inner, Log: log, Handle: handle}
}

var _ backendAPI.Backend = (*RecBackend)(nil)

// Get implements backend/api.Backend.
func (b *RecBackend) Get(path string) ([]byte, error) {
	data, err := b.Inner.Get(path)
	if err == nil && b.GetHook != nil {
		data = b.GetHook(path, recCopy(data))
	}
	b.Log.add(RecCall{Handle: b.Handle, Op: "Get", Path: path, Out: recCopy(data), Err: recErr(err)})
	return data, err
}

// Put implements backend/api.Backend.
func (b *RecBackend) Put(path string, data []byte) error {
	cp := recCopy(data)
	err := b.Inner.Put(path, data)
	b.Log.add(RecCall{Handle: b.Handle, Op: "Put", Path: path, Data: cp, Err: recErr(err)})
	return err
}

// ListAll implements backend/api.Backend.
func (b *RecBackend) ListAll() ([]string, error) {
	l, err := b.Inner.ListAll()
	b.Log.add(RecCall{Handle: b.Handle, Op: "ListAll", Err: recErr(err)})
	return l, err
}

// Rename implements backend/api.Backend.
func (b *RecBackend) Rename(oldpath, newpath string) error {
	err := b.Inner.Rename(oldpath, newpath)
	b.Log.add(RecCall{Handle: b.Handle, Op: "Rename", Path: oldpath, Path2: newpath, Err: recErr(err)})
	return err
}

// RenameNX implements backend/api.Backend.
func (b *RecBackend) RenameNX(oldpath, newpath string) error {
	err := b.Inner.RenameNX(oldpath, newpath)
	b.Log.add(RecCall{Handle: b.Handle, Op: "RenameNX", Path: oldpath, Path2: newpath, Err: recErr(err)})
	return err
}

// Lock implements backend/api.Backend.
func (b *RecBackend) Lock() error {
	err := b.Inner.Lock()
	b.Log.add(RecCall{Handle: b.Handle, Op: "Lock", Err: recErr(err)})
	return err
}

// RLock implements backend/api.Backend.
func (b *RecBackend) RLock() error {
	err := b.Inner.RLock()
	b.Log.add(RecCall{Handle: b.Handle, Op: "RLock", Err: recErr(err)})
	return err
}

// Unlock implements backend/api.Backend.
func (b *RecBackend) Unlock() error {
	err := b.Inner.Unlock()
	b.Log.add(RecCall{Handle: b.Handle, Op: "Unlock", Err: recErr(err)})
	return err
}

// RUnlock implements backend/api.Backend.
func (b *RecBackend) RUnlock() error {
	err := b.Inner.RUnlock()
	b.Log.add(RecCall{Handle: b.Handle, Op: "RUnlock", Err: recErr(err)})
	return err
}

// Close implements backend/api.Backend.
func (b *RecBackend) Close() error {
	if b.KeepOpen {
		b.Log.add(RecCall{Handle: b.Handle, Op: "Close(kept open)"})
		return nil
	}
	err := b.Inner.Close()
	b.Log.add(RecCall{Handle: b.Handle, Op: "Close", Err: recErr(err)})
	return err
}
