package ksrig

// fault.go — fault-injecting / recording wrappers around the two storage interfaces of the keystores:
//   v1: keystore/filesystem.Storage             (FaultStorage)
//   v2: keystore/v2/.../backend/api.Backend     (FaultBackend)
// Both record every call ({seq, op, path class, data length, result}) and can, at call number k,
//   - return an error without performing the call            (FaultErrBefore)
//   - perform the call and return an error                   (FaultErrAfter)
//   - "crash" just before / just after the call              (FaultCrashBefore / FaultCrashAfter)
//   - write only a prefix of the data and then crash         (FaultTorn, data-carrying calls only)
// A crash is: take a snapshot of the storage at that instant (Snapshot callback), mark the wrapper dead
// (every later data call fails without touching the storage), and panic with *FaultCrash. The harness catches the
// panic at the operation boundary (FaultRun) and evaluates the SNAPSHOT, so clean-up code that a real process crash
// would not run (defers in Acra, or in the wrapper's inner storage) cannot mask anything.
// Model: process crash — whatever was handed to the storage before the crash instant survives.

import (
	"errors"
	"fmt"
	"io"
	"io/fs"
	"os"
	"path/filepath"
	"regexp"
	"runtime"
	"sort"
	"strings"
	"sync"
	"syscall"

	"github.com/cossacklabs/acra/keystore/filesystem"
	"github.com/cossacklabs/acra/keystore/v2/keystore/filesystem/backend"
)

// FaultMode says what happens at the chosen call.
type FaultMode int

// Fault modes.
const (
	FaultNone FaultMode = iota
	FaultErrBefore
	FaultErrAfter
	FaultCrashBefore
	FaultCrashAfter
	FaultTorn
)

func (m FaultMode) String() string {
	switch m {
	case FaultNone:
		return "none"
	case FaultErrBefore:
		return "error-before"
	case FaultErrAfter:
		return "error-after"
	case FaultCrashBefore:
		return "crash-before"
	case FaultCrashAfter:
		return "crash-after"
	case FaultTorn:
		return "torn"
	}
	return "?"
}

// IsCrash reports whether the mode ends the "process".
func (m FaultMode) IsCrash() bool {
	return m == FaultCrashBefore || m == FaultCrashAfter || m == FaultTorn
}

// FaultPlan selects one fault: at the At-th call (1-based) seen by the wrapper, apply Mode.
// TornBytes is the prefix length written by FaultTorn (clamped to the data length).
type FaultPlan struct {
	At        int
	Mode      FaultMode
	TornBytes int
}

// FaultCall is one recorded storage/back-end call.
type FaultCall struct {
	Seq     int    // 1-based
	Op      string // method name
	Path    string // normalised path class (root stripped, temp names and timestamps replaced)
	Path2   string // second path of Rename/Link/Copy
	DataLen int    // bytes carried by WriteFile/Put/Copy; -1 otherwise
	Mutates bool   // the call changes the storage
	Carries bool   // the call carries data (a torn write is possible)
	Err     string // result as seen by Acra ("" = nil)
	Faulted string // fault mode applied at this call, "" if none
}

// Class is the stable identity of the call used in signatures: Op(path[,path2]).
func (c FaultCall) Class() string {
	if c.Path2 != "" {
		return fmt.Sprintf("%s(%s,%s)", c.Op, c.Path, c.Path2)
	}
	if c.Path != "" {
		return fmt.Sprintf("%s(%s)", c.Op, c.Path)
	}
	return c.Op
}

// FaultCrash is the panic value of a simulated crash.
type FaultCrash struct {
	Call FaultCall
	Mode FaultMode
}

func (c *FaultCrash) Error() string {
	return fmt.Sprintf("simulated crash (%s) at call #%d %s", c.Mode, c.Call.Seq, c.Call.Class())
}

// ErrFaultInjected is the error returned by the error modes of the v2 wrapper and wrapped (EIO) by the v1 wrapper.
var ErrFaultInjected = errors.New("injected storage failure")

// ErrFaultDead is returned by every data call after a simulated crash.
var ErrFaultDead = errors.New("storage used after simulated crash")

// FaultOutcome is what FaultRun observed.
type FaultOutcome struct {
	Err        error       // error returned by the operation (nil if it crashed or panicked)
	Crashed    *FaultCrash // the sentinel, when the planned crash happened
	Panic      interface{} // any OTHER panic value
	PanicStack string
}

// FaultRun runs op, catching the crash sentinel (and any other panic, reported separately).
func FaultRun(op func() error) (out FaultOutcome) {
	defer func() {
		if p := recover(); p != nil {
			if c, ok := p.(*FaultCrash); ok {
				out.Crashed = c
				return
			}
			out.Panic = p
			out.PanicStack = faultStack()
		}
	}()
	out.Err = op()
	return
}

type faultCore struct {
	mu       sync.Mutex
	plan     FaultPlan
	calls    []FaultCall
	dead     bool
	fired    bool
	snapshot func() // called at the crash instant, with the core lock released
	norm     func(string) string
}

func (c *faultCore) begin(op, p1, p2 string, dataLen int, mutates, carries bool) (idx int, mode FaultMode, dead bool) {
	c.mu.Lock()
	defer c.mu.Unlock()
	call := FaultCall{Seq: len(c.calls) + 1, Op: op, Path: c.norm(p1), DataLen: dataLen, Mutates: mutates, Carries: carries}
	if p2 != "" {
		call.Path2 = c.norm(p2)
	}
	if c.dead {
		call.Err = ErrFaultDead.Error()
		c.calls = append(c.calls, call)
		return len(c.calls) - 1, FaultNone, true
	}
	if c.plan.Mode != FaultNone && call.Seq == c.plan.At && !c.fired {
		c.fired = true
		mode = c.plan.Mode
		call.Faulted = mode.String()
	}
	c.calls = append(c.calls, call)
	return len(c.calls) - 1, mode, false
}

func (c *faultCore) end(idx int, err error) {
	c.mu.Lock()
	if err != nil {
		c.calls[idx].Err = err.Error()
	}
	c.mu.Unlock()
}

func (c *faultCore) crash(idx int, mode FaultMode) {
	c.mu.Lock()
	c.dead = true
	call := c.calls[idx]
	snap := c.snapshot
	c.mu.Unlock()
	if snap != nil {
		snap()
	}
	panic(&FaultCrash{Call: call, Mode: mode})
}

// Calls returns a copy of the recorded trace.
func (c *faultCore) Calls() []FaultCall {
	c.mu.Lock()
	defer c.mu.Unlock()
	return append([]FaultCall(nil), c.calls...)
}

// Fired reports whether the planned fault was applied.
func (c *faultCore) Fired() bool { c.mu.Lock(); defer c.mu.Unlock(); return c.fired }

// SetPlan arms a (new) fault relative to the calls seen from now on: the counter restarts.
func (c *faultCore) SetPlan(p FaultPlan) {
	c.mu.Lock()
	c.plan = p
	c.calls = nil
	c.fired = false
	c.mu.Unlock()
}

var (
	faultTSRe = regexp.MustCompile(`\d{4}-\d{2}-\d{2}T\d{2}:\d{2}:\d{2}(\.\d+)?`)
)

// ---------------------------------------------------------------------------------------------
// v1: filesystem.Storage

// FaultStorage wraps a filesystem.Storage rooted at Root (paths are reported relative to it).
type FaultStorage struct {
	faultCore
	Inner filesystem.Storage
	Root  string
	// NoHardLinks makes Link fail with EPERM always (a file system without hard links): WriteKeyFile then
	// falls back to Copy, which puts Copy into the fault-free trace. Not a fault; part of the configuration.
	NoHardLinks bool
	tmpMu       sync.Mutex
	tmpNames    map[string]string // real temp path -> class
}

// NewFaultStorage wraps inner. snapshot (may be nil) is called at the crash instant.
func NewFaultStorage(inner filesystem.Storage, root string, snapshot func()) *FaultStorage {
	s := &FaultStorage{Inner: inner, Root: filepath.Clean(root), tmpNames: map[string]string{}}
	s.snapshot = snapshot
	s.norm = s.normPath
	return s
}

func (s *FaultStorage) normPath(p string) string {
	if p == "" {
		return ""
	}
	s.tmpMu.Lock()
	cls, ok := s.tmpNames[p]
	s.tmpMu.Unlock()
	if ok {
		return cls
	}
	q := filepath.Clean(p)
	if q == s.Root {
		return "."
	}
	q = strings.TrimPrefix(q, s.Root+string(os.PathSeparator))
	return faultTSRe.ReplaceAllString(q, "<ts>")
}

func faultEIO(op, path string) error { return &fs.PathError{Op: op, Path: path, Err: syscall.EIO} }

// simple (no data) call helper
func (s *FaultStorage) do(op, p1, p2 string, mutates bool, f func() error) error {
	idx, mode, dead := s.begin(op, p1, p2, -1, mutates, false)
	if dead {
		return ErrFaultDead
	}
	switch mode {
	case FaultErrBefore:
		err := faultEIO(op, p1)
		s.end(idx, err)
		return err
	case FaultCrashBefore:
		s.crash(idx, mode)
	}
	err := f()
	switch mode {
	case FaultErrAfter:
		err = faultEIO(op, p1)
	case FaultCrashAfter, FaultTorn:
		s.end(idx, err)
		s.crash(idx, FaultCrashAfter)
	}
	s.end(idx, err)
	return err
}

// Stat implements filesystem.Storage.
func (s *FaultStorage) Stat(path string) (fi os.FileInfo, err error) {
	err = s.do("Stat", path, "", false, func() (e error) { fi, e = s.Inner.Stat(path); return })
	if err != nil {
		fi = nil
	}
	return
}

// Exists implements filesystem.Storage.
func (s *FaultStorage) Exists(path string) (ok bool, err error) {
	err = s.do("Exists", path, "", false, func() (e error) { ok, e = s.Inner.Exists(path); return })
	if err != nil {
		ok = false
	}
	return
}

// ReadDir implements filesystem.Storage.
func (s *FaultStorage) ReadDir(path string) (fis []os.FileInfo, err error) {
	err = s.do("ReadDir", path, "", false, func() (e error) { fis, e = s.Inner.ReadDir(path); return })
	if err != nil {
		fis = nil
	}
	return
}

// MkdirAll implements filesystem.Storage.
func (s *FaultStorage) MkdirAll(path string, perm os.FileMode) error {
	return s.do("MkdirAll", path, "", true, func() error { return s.Inner.MkdirAll(path, perm) })
}

// Rename implements filesystem.Storage.
func (s *FaultStorage) Rename(oldpath, newpath string) error {
	return s.do("Rename", oldpath, newpath, true, func() error { return s.Inner.Rename(oldpath, newpath) })
}

// TempFile implements filesystem.Storage.
func (s *FaultStorage) TempFile(pattern string, perm os.FileMode) (name string, err error) {
	err = s.do("TempFile", pattern, "", true, func() (e error) {
		name, e = s.Inner.TempFile(pattern, perm)
		if e == nil {
			cls := s.normPath(pattern) + "~tmp"
			s.tmpMu.Lock()
			s.tmpNames[name] = cls
			s.tmpMu.Unlock()
		}
		return
	})
	if err != nil {
		name = ""
	}
	return
}

// TempDir implements filesystem.Storage.
func (s *FaultStorage) TempDir(pattern string, perm os.FileMode) (name string, err error) {
	err = s.do("TempDir", pattern, "", true, func() (e error) {
		name, e = s.Inner.TempDir(pattern, perm)
		if e == nil {
			cls := s.normPath(pattern) + "~tmpdir"
			s.tmpMu.Lock()
			s.tmpNames[name] = cls
			s.tmpMu.Unlock()
		}
		return
	})
	if err != nil {
		name = ""
	}
	return
}

// Link implements filesystem.Storage.
func (s *FaultStorage) Link(oldpath, newpath string) error {
	return s.do("Link", oldpath, newpath, true, func() error {
		if s.NoHardLinks {
			return &os.LinkError{Op: "link", Old: oldpath, New: newpath, Err: syscall.EPERM}
		}
		return s.Inner.Link(oldpath, newpath)
	})
}

// ReadFile implements filesystem.Storage.
func (s *FaultStorage) ReadFile(path string) (b []byte, err error) {
	err = s.do("ReadFile", path, "", false, func() (e error) { b, e = s.Inner.ReadFile(path); return })
	if err != nil {
		b = nil
	}
	return
}

// Remove implements filesystem.Storage.
func (s *FaultStorage) Remove(path string) error {
	return s.do("Remove", path, "", true, func() error { return s.Inner.Remove(path) })
}

// RemoveAll implements filesystem.Storage.
func (s *FaultStorage) RemoveAll(path string) error {
	return s.do("RemoveAll", path, "", true, func() error { return s.Inner.RemoveAll(path) })
}

// WriteFile implements filesystem.Storage (data-carrying: torn writes possible).
func (s *FaultStorage) WriteFile(path string, data []byte, perm os.FileMode) error {
	idx, mode, dead := s.begin("WriteFile", path, "", len(data), true, true)
	if dead {
		return ErrFaultDead
	}
	switch mode {
	case FaultErrBefore:
		err := faultEIO("write", path)
		s.end(idx, err)
		return err
	case FaultCrashBefore:
		s.crash(idx, mode)
	case FaultTorn:
		n := s.tornLen(len(data))
		// what a process killed inside ioutil.WriteFile leaves: file created/truncated, first n bytes written
		err := s.Inner.WriteFile(path, append([]byte(nil), data[:n]...), perm)
		s.end(idx, err)
		s.crash(idx, mode)
	}
	err := s.Inner.WriteFile(path, data, perm)
	switch mode {
	case FaultErrAfter:
		err = faultEIO("write", path)
	case FaultCrashAfter:
		s.end(idx, err)
		s.crash(idx, mode)
	}
	s.end(idx, err)
	return err
}

func (s *FaultStorage) tornLen(n int) int {
	t := s.plan.TornBytes
	if t < 0 {
		t = 0
	}
	if t > n {
		t = n
	}
	return t
}

// Copy implements filesystem.Storage (data-carrying: torn writes possible).
func (s *FaultStorage) Copy(src, dst string) error {
	size := -1
	if fi, err := os.Stat(src); err == nil {
		size = int(fi.Size())
	}
	idx, mode, dead := s.begin("Copy", src, dst, size, true, true)
	if dead {
		return ErrFaultDead
	}
	switch mode {
	case FaultErrBefore:
		err := faultEIO("copy", dst)
		s.end(idx, err)
		return err
	case FaultCrashBefore:
		s.crash(idx, mode)
	case FaultTorn:
		// a process killed inside Copy: destination created exclusively with the source mode, first n bytes copied
		err := faultTornCopy(src, dst, s.tornLen(size))
		s.end(idx, err)
		s.crash(idx, mode)
	}
	err := s.Inner.Copy(src, dst)
	switch mode {
	case FaultErrAfter:
		err = faultEIO("copy", dst)
	case FaultCrashAfter:
		s.end(idx, err)
		s.crash(idx, mode)
	}
	s.end(idx, err)
	return err
}

func faultTornCopy(src, dst string, n int) error {
	in, err := os.Open(src)
	if err != nil {
		return err
	}
	defer in.Close()
	fi, err := in.Stat()
	if err != nil {
		return err
	}
	out, err := os.OpenFile(dst, os.O_WRONLY|os.O_CREATE|os.O_EXCL, fi.Mode()&os.ModePerm)
	if err != nil {
		return err
	}
	defer out.Close()
	_, err = io.CopyN(out, in, int64(n))
	if err == io.EOF {
		err = nil
	}
	return err
}

var _ filesystem.Storage = (*FaultStorage)(nil)

// ---------------------------------------------------------------------------------------------
// v2: backend/api.Backend

// FaultBackend wraps a v2 key-ring back end.
type FaultBackend struct {
	faultCore
	Inner backend.Backend
}

// NewFaultBackend wraps inner. snapshot (may be nil) is called at the crash instant.
func NewFaultBackend(inner backend.Backend, snapshot func()) *FaultBackend {
	b := &FaultBackend{Inner: inner}
	b.snapshot = snapshot
	b.norm = func(p string) string { return p }
	return b
}

func (b *FaultBackend) do(op, p1, p2 string, mutates bool, f func() error) error {
	idx, mode, dead := b.begin(op, p1, p2, -1, mutates, false)
	if dead {
		return ErrFaultDead
	}
	switch mode {
	case FaultErrBefore:
		b.end(idx, ErrFaultInjected)
		return ErrFaultInjected
	case FaultCrashBefore:
		b.crash(idx, mode)
	}
	err := f()
	switch mode {
	case FaultErrAfter:
		err = ErrFaultInjected
	case FaultCrashAfter, FaultTorn:
		b.end(idx, err)
		b.crash(idx, FaultCrashAfter)
	}
	b.end(idx, err)
	return err
}

// Get implements api.Backend.
func (b *FaultBackend) Get(path string) (data []byte, err error) {
	err = b.do("Get", path, "", false, func() (e error) { data, e = b.Inner.Get(path); return })
	if err != nil {
		data = nil
	}
	return
}

// Put implements api.Backend (data-carrying: torn writes possible).
func (b *FaultBackend) Put(path string, data []byte) error {
	idx, mode, dead := b.begin("Put", path, "", len(data), true, true)
	if dead {
		return ErrFaultDead
	}
	switch mode {
	case FaultErrBefore:
		b.end(idx, ErrFaultInjected)
		return ErrFaultInjected
	case FaultCrashBefore:
		b.crash(idx, mode)
	case FaultTorn:
		n := b.plan.TornBytes
		if n < 0 {
			n = 0
		}
		if n > len(data) {
			n = len(data)
		}
		// a process killed inside Put: path created exclusively, first n bytes written
		err := b.Inner.Put(path, append([]byte(nil), data[:n]...))
		b.end(idx, err)
		b.crash(idx, mode)
	}
	err := b.Inner.Put(path, data)
	switch mode {
	case FaultErrAfter:
		err = ErrFaultInjected
	case FaultCrashAfter:
		b.end(idx, err)
		b.crash(idx, mode)
	}
	b.end(idx, err)
	return err
}

// ListAll implements api.Backend.
func (b *FaultBackend) ListAll() (l []string, err error) {
	err = b.do("ListAll", "", "", false, func() (e error) { l, e = b.Inner.ListAll(); return })
	if err != nil {
		l = nil
	}
	return
}

// Rename implements api.Backend.
func (b *FaultBackend) Rename(oldpath, newpath string) error {
	return b.do("Rename", oldpath, newpath, true, func() error { return b.Inner.Rename(oldpath, newpath) })
}

// RenameNX implements api.Backend.
func (b *FaultBackend) RenameNX(oldpath, newpath string) error {
	return b.do("RenameNX", oldpath, newpath, true, func() error { return b.Inner.RenameNX(oldpath, newpath) })
}

// lock calls: after a crash they are still forwarded (Acra's deferred Unlock must not dead-lock the harness;
// the crashed back end is never evaluated — its snapshot is).
func (b *FaultBackend) lockCall(op string, f func() error) error {
	idx, mode, dead := b.begin(op, "", "", -1, false, false)
	if dead {
		return f()
	}
	switch mode {
	case FaultErrBefore:
		b.end(idx, ErrFaultInjected)
		return ErrFaultInjected
	case FaultCrashBefore:
		b.crash(idx, mode)
	}
	err := f()
	switch mode {
	case FaultErrAfter:
		err = ErrFaultInjected
	case FaultCrashAfter, FaultTorn:
		b.end(idx, err)
		b.crash(idx, FaultCrashAfter)
	}
	b.end(idx, err)
	return err
}

// Lock implements api.Backend.
func (b *FaultBackend) Lock() error { return b.lockCall("Lock", b.Inner.Lock) }

// Unlock implements api.Backend.
func (b *FaultBackend) Unlock() error { return b.lockCall("Unlock", b.Inner.Unlock) }

// RLock implements api.Backend.
func (b *FaultBackend) RLock() error { return b.lockCall("RLock", b.Inner.RLock) }

// RUnlock implements api.Backend.
func (b *FaultBackend) RUnlock() error { return b.lockCall("RUnlock", b.Inner.RUnlock) }

// Close implements api.Backend (never faulted: it is not part of a write operation).
func (b *FaultBackend) Close() error { return b.Inner.Close() }

var _ backend.Backend = (*FaultBackend)(nil)

// ---------------------------------------------------------------------------------------------
// state capture helpers

// FaultBackendState is the full content of a v2 back end: path -> bytes.
type FaultBackendState map[string][]byte

// FaultDumpBackend reads every path of a back end (directly, not through a fault wrapper).
func FaultDumpBackend(b backend.Backend) (FaultBackendState, error) {
	paths, err := b.ListAll()
	if err != nil {
		return nil, err
	}
	st := FaultBackendState{}
	for _, p := range paths {
		d, err := b.Get(p)
		if err != nil {
			return nil, fmt.Errorf("get %s: %w", p, err)
		}
		st[p] = append([]byte(nil), d...)
	}
	return st, nil
}

// FaultRestoreMem builds a fresh in-memory back end holding st.
func FaultRestoreMem(st FaultBackendState) backend.Backend {
	m := backend.NewInMemory()
	for p, d := range st {
		if err := m.Put(p, append([]byte(nil), d...)); err != nil {
			panic(err)
		}
	}
	return m
}

// FaultRestoreDir builds a fresh directory back end under dir holding st.
func FaultRestoreDir(dir string, st FaultBackendState) (backend.Backend, error) {
	b, err := backend.CreateDirectoryBackend(dir)
	if err != nil {
		return nil, err
	}
	for p, d := range st {
		if err := b.Put(p, d); err != nil {
			return nil, err
		}
	}
	return b, nil
}

// Equal compares two back-end states.
func (st FaultBackendState) Equal(o FaultBackendState) bool {
	if len(st) != len(o) {
		return false
	}
	for k, v := range st {
		w, ok := o[k]
		if !ok || string(v) != string(w) {
			return false
		}
	}
	return true
}

// Paths lists the paths, sorted.
func (st FaultBackendState) Paths() []string {
	out := make([]string, 0, len(st))
	for k := range st {
		out = append(out, k)
	}
	sort.Strings(out)
	return out
}

// FaultTreeFile is one entry of a directory tree dump.
type FaultTreeFile struct {
	Mode os.FileMode
	Dir  bool
	Data []byte
}

// FaultDumpTree reads a directory tree: relative path -> entry.
func FaultDumpTree(root string) (map[string]FaultTreeFile, error) {
	out := map[string]FaultTreeFile{}
	err := filepath.Walk(root, func(p string, info os.FileInfo, err error) error {
		if err != nil {
			return err
		}
		rel, _ := filepath.Rel(root, p)
		if rel == "." {
			return nil
		}
		if info.IsDir() {
			out[rel] = FaultTreeFile{Mode: info.Mode().Perm(), Dir: true}
			return nil
		}
		b, err := os.ReadFile(p)
		if err != nil {
			return err
		}
		out[rel] = FaultTreeFile{Mode: info.Mode().Perm(), Data: b}
		return nil
	})
	return out, err
}

// FaultCopyTree copies a directory tree (modes preserved; hard links become independent files) into dst (created 0700).
func FaultCopyTree(src, dst string) error {
	if err := os.MkdirAll(dst, 0o700); err != nil {
		return err
	}
	os.Chmod(dst, 0o700)
	return filepath.Walk(src, func(p string, info os.FileInfo, err error) error {
		if err != nil {
			return err
		}
		rel, _ := filepath.Rel(src, p)
		if rel == "." {
			return nil
		}
		t := filepath.Join(dst, rel)
		if info.IsDir() {
			if err := os.MkdirAll(t, info.Mode().Perm()); err != nil {
				return err
			}
			return os.Chmod(t, info.Mode().Perm())
		}
		b, err := os.ReadFile(p)
		if err != nil {
			return err
		}
		if err := os.WriteFile(t, b, info.Mode().Perm()); err != nil {
			return err
		}
		return os.Chmod(t, info.Mode().Perm())
	})
}

func faultStack() string {
	buf := make([]byte, 16<<10)
	n := runtime.Stack(buf, false)
	return string(buf[:n])
}

var faultFrameRe = regexp.MustCompile(`(?m)^(github\.com/cossacklabs/acra/[^\s(]+(?:\([^)]*\))?[^\s(]*)\(`)

// FaultPanicSite extracts the innermost Acra function of a panic stack (stable across runs; used in signatures).
func FaultPanicSite(stack string) string {
	m := faultFrameRe.FindStringSubmatch(stack)
	if m == nil {
		return "outside-acra"
	}
	return strings.TrimPrefix(m[1], "github.com/cossacklabs/acra/")
}
