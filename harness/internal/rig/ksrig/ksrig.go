// Package ksrig builds real Acra keystores (v1 filesystem, v2 key rings) in scratch locations.
package ksrig

import (
	"crypto/rand"
	"fmt"
	"os"
	"path/filepath"
	"sync/atomic"

	"github.com/cossacklabs/acra/keystore"
	"github.com/cossacklabs/acra/keystore/filesystem"
	keystoreV2 "github.com/cossacklabs/acra/keystore/v2/keystore"
	fsV2 "github.com/cossacklabs/acra/keystore/v2/keystore/filesystem"
	"github.com/cossacklabs/acra/keystore/v2/keystore/filesystem/backend"
)

// FullKeyStore is what both server keystores offer (used by envelope, poison and proxy monitors).
type FullKeyStore interface {
	keystore.ServerKeyStore
	keystore.KeyMaking
	keystore.PoisonKeyStorageAndGenerator
}

var scratchSeq int64

// ScratchDir returns a fresh 0700 directory under the per-run scratch root (removed by ./check on exit).
func ScratchDir(tag string) string {
	root := os.Getenv("VERIF_SCRATCH_DIR")
	if root == "" {
		root = filepath.Join(os.TempDir(), fmt.Sprintf("verif-scratch-%d", os.Getpid()))
	}
	d := filepath.Join(root, fmt.Sprintf("%s-%d-%d", tag, os.Getpid(), atomic.AddInt64(&scratchSeq, 1)))
	if err := os.MkdirAll(d, 0o700); err != nil {
		panic(err)
	}
	os.Chmod(d, 0o700)
	return d
}

// RandBytes returns n bytes from crypto/rand (for keys only; workloads use the seeded PRNG).
func RandBytes(n int) []byte {
	b := make([]byte, n)
	if _, err := rand.Read(b); err != nil {
		panic(err)
	}
	return b
}

// V1 opens (creating if needed) a v1 filesystem keystore in dir with the given master key and cache size
// (keystore.WithoutCache = -1 off, keystore.InfiniteCacheSize = 0 unbounded, n>0 LRU of n entries).
func V1(dir string, master []byte, cacheSize int) (*filesystem.KeyStore, error) {
	enc, err := keystore.NewSCellKeyEncryptor(master)
	if err != nil {
		return nil, err
	}
	return filesystem.NewCustomFilesystemKeyStore().KeyDirectory(dir).Encryptor(enc).CacheSize(cacheSize).Build()
}

// V1WithStorage is V1 over an interposed storage.
func V1WithStorage(dir string, master []byte, cacheSize int, st filesystem.Storage) (*filesystem.KeyStore, error) {
	enc, err := keystore.NewSCellKeyEncryptor(master)
	if err != nil {
		return nil, err
	}
	return filesystem.NewCustomFilesystemKeyStore().KeyDirectory(dir).Encryptor(enc).Storage(st).CacheSize(cacheSize).Build()
}

// V2Keys are the two master keys of a v2 keystore.
type V2Keys struct{ Enc, Sig []byte }

// NewV2Keys draws fresh master keys.
func NewV2Keys() V2Keys { return V2Keys{RandBytes(32), RandBytes(32)} }

// V2OnBackend opens a v2 server keystore over the given backend (a handle; several handles may share one backend
// only if the backend itself is shareable, e.g. two DirectoryBackends on one directory or wrappers around one InMemory).
func V2OnBackend(b backend.Backend, k V2Keys) (*keystoreV2.ServerKeyStore, error) {
	suite, err := keystoreV2.NewSCellSuite(k.Enc, k.Sig)
	if err != nil {
		return nil, err
	}
	ks, err := fsV2.CustomKeyStore(b, suite)
	if err != nil {
		return nil, err
	}
	return keystoreV2.NewServerKeyStore(ks), nil
}

// V2Mem is a v2 keystore over a fresh in-memory backend.
func V2Mem(k V2Keys) (*keystoreV2.ServerKeyStore, error) { return V2OnBackend(backend.NewInMemory(), k) }

// V2Dir is a v2 keystore over a directory backend (created if absent).
func V2Dir(dir string, k V2Keys) (*keystoreV2.ServerKeyStore, error) {
	b, err := backend.CreateDirectoryBackend(dir)
	if err != nil {
		return nil, err
	}
	return V2OnBackend(b, k)
}

// GenClient generates all per-client keys (storage pair, storage symmetric, search HMAC).
func GenClient(ks keystore.KeyMaking, id []byte) error {
	if err := ks.GenerateDataEncryptionKeys(id); err != nil {
		return err
	}
	if err := ks.GenerateClientIDSymmetricKey(id); err != nil {
		return err
	}
	return ks.GenerateHmacKey(id)
}
