package ksrig

import (
	"testing"

	"verif/harness/internal/rig/fakeredis"
)

func TestRedisKeystoresSmoke(t *testing.T) {
	srv := fakeredis.Start()
	defer srv.Close()
	master := RandBytes(32)
	ks, _, err := V1Redis(srv, 0, "keys", master, 0)
	if err != nil {
		t.Fatal(err)
	}
	id := []byte("client_one")
	for i := 0; i < 3; i++ {
		if err := GenClient(ks, id); err != nil {
			t.Fatal(err)
		}
	}
	privs, err := ks.GetServerDecryptionPrivateKeys(id)
	if err != nil || len(privs) != 3 {
		t.Fatal(len(privs), err)
	}
	ks2, _, err := V1Redis(srv, 0, "keys", master, -1)
	if err != nil {
		t.Fatal(err)
	}
	syms, err := ks2.GetClientIDSymmetricKeys(id)
	if err != nil || len(syms) != 3 {
		t.Fatal(len(syms), err)
	}
	k := NewV2Keys()
	v2, _, err := V2Redis(srv, 1, "v2root", k)
	if err != nil {
		t.Fatal(err)
	}
	for i := 0; i < 3; i++ {
		if err := GenClient(v2, id); err != nil {
			t.Fatal(err)
		}
	}
	v2b, _, err := V2Redis(srv, 1, "v2root", k)
	if err != nil {
		t.Fatal(err)
	}
	p2, err := v2b.GetServerDecryptionPrivateKeys(id)
	if err != nil || len(p2) != 3 {
		t.Fatal(len(p2), err)
	}
	if srv.Unknown() != 0 {
		t.Fatal("unknown commands")
	}
	names := map[string]int{}
	for _, c := range srv.Log() {
		names[c.Name]++
	}
	t.Log(names, len(srv.Keys(0)), len(srv.Keys(1)))
}
