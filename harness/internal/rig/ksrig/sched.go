package ksrig

// sched.go — controlled schedules for v2 keystore handles that share one backend (owner: C17).
//
// A Sched owns ONE underlying api.Backend (normally backend.NewInMemory()) and hands out one SchedBackend
// per "thread" (= one keystore handle driven by one goroutine). While Run is active every backend call of a
// thread parks until the scheduler grants it. Exactly one thread executes at any time, so everything the real
// keystore code does between two backend calls happens atomically with respect to the other threads, and an
// execution is fully described by the sequence of granted (thread, backend op) pairs — the interleaving.
//
// The scheduler models the store lock (exclusive Lock / shared RLock of the backend): a parked Lock is enabled
// only when nobody holds the lock, a parked RLock only when no writer holds it. A call that would block is
// therefore never granted, and the real call on the shared backend never blocks. If live threads exist and none
// is enabled the run is reported as deadlocked.
//
// Choosers: SchedRandom (seeded), SchedDFS (exhaustive depth-first enumeration of all interleavings, stateless:
// re-executes the prefix), SchedReplay (fixed list of threads).

import (
	"fmt"
	"hash/fnv"
	"math/rand"
	"runtime/debug"
	"strings"
	"sync"
	"time"

	"github.com/cossacklabs/acra/keystore/v2/keystore/filesystem/backend/api"
)

// SchedStep is one granted backend call.
type SchedStep struct {
	Thread int
	Op     string
	Path   string
}

func (s SchedStep) String() string {
	if s.Path == "" {
		return fmt.Sprintf("%d:%s", s.Thread, s.Op)
	}
	return fmt.Sprintf("%d:%s(%s)", s.Thread, s.Op, s.Path)
}

// SchedChooser picks the index (into enabled, which is sorted by thread id) of the thread to run next.
type SchedChooser interface {
	Choose(step int, enabled []int) int
}

// SchedRandom picks uniformly with a seeded generator.
type SchedRandom struct{ Rng *rand.Rand }

// Choose implements SchedChooser.
func (c SchedRandom) Choose(_ int, enabled []int) int { return c.Rng.Intn(len(enabled)) }

// SchedReplay follows a recorded list of thread ids; when exhausted or not applicable it takes the first enabled.
type SchedReplay struct{ Threads []int }

// Choose implements SchedChooser.
func (c SchedReplay) Choose(step int, enabled []int) int {
	if step < len(c.Threads) {
		for i, t := range enabled {
			if t == c.Threads[step] {
				return i
			}
		}
	}
	return 0
}

type schedFrame struct{ choice, n int }

// SchedDFS enumerates all interleavings depth first. Usage: for { run with d as chooser; if !d.Next() {break} }.
type SchedDFS struct {
	stack []schedFrame
	// Diverged is set when a re-executed prefix offered a different number of enabled threads than before
	// (the code under test was not deterministic for that prefix); the enumeration is then not exhaustive.
	Diverged bool
	// MaxBranchDepth, if > 0, stops branching below that depth (deeper steps always take the first enabled thread);
	// Truncated reports whether that happened.
	MaxBranchDepth int
	Truncated      bool
	used           int
}

// Choose implements SchedChooser.
func (d *SchedDFS) Choose(step int, enabled []int) int {
	d.used = step + 1
	if step < len(d.stack) {
		f := &d.stack[step]
		if f.n != len(enabled) {
			d.Diverged = true
			f.n = len(enabled)
			if f.choice >= f.n {
				f.choice = f.n - 1
			}
		}
		return f.choice
	}
	n := len(enabled)
	if d.MaxBranchDepth > 0 && step >= d.MaxBranchDepth && n > 1 {
		d.Truncated = true
		n = 1
	}
	d.stack = append(d.stack, schedFrame{0, n})
	return 0
}

// Next moves to the next unexplored interleaving; false when the tree is exhausted.
func (d *SchedDFS) Next() bool {
	if d.used < len(d.stack) {
		d.stack = d.stack[:d.used]
	}
	for len(d.stack) > 0 {
		top := &d.stack[len(d.stack)-1]
		if top.choice+1 < top.n {
			top.choice++
			d.used = 0
			return true
		}
		d.stack = d.stack[:len(d.stack)-1]
	}
	return false
}

const (
	schedIdle = iota
	schedRunning
	schedParked
	schedDone
)

type schedThread struct {
	status  int
	pending SchedStep
	granted bool
	panicV  interface{}
	stack   string
}

// Sched is the scheduler plus the shared backend.
type Sched struct {
	inner api.Backend

	mu      sync.Mutex
	cond    *sync.Cond
	active  bool
	threads []*schedThread
	trace   []SchedStep
	writer  int
	readers map[int]int
	expired bool
}

// SchedResult describes one controlled execution.
type SchedResult struct {
	Trace    []SchedStep
	Deadlock bool           // live threads existed but no parked call was enabled
	Hung     bool           // watchdog: a running thread neither parked nor finished in time (inconclusive)
	Panics   map[int]string // thread -> panic value and stack
}

// Signature is a stable digest of the interleaving (sequence of thread:op pairs).
func (r *SchedResult) Signature() string {
	h := fnv.New64a()
	for _, s := range r.Trace {
		fmt.Fprintf(h, "%d:%s;", s.Thread, s.Op)
	}
	return fmt.Sprintf("%016x", h.Sum64())
}

// Threads renders the interleaving compactly: the sequence of thread ids (enough to replay with SchedReplay).
func (r *SchedResult) Threads() []int {
	out := make([]int, len(r.Trace))
	for i, s := range r.Trace {
		out[i] = s.Thread
	}
	return out
}

// Compact renders the trace as "0:Lock 0:Get 1:RLock ...".
func (r *SchedResult) Compact() string {
	parts := make([]string, len(r.Trace))
	for i, s := range r.Trace {
		parts[i] = fmt.Sprintf("%d:%s", s.Thread, s.Op)
	}
	return strings.Join(parts, " ")
}

// ContextSwitches counts steps whose thread differs from the previous step's.
func (r *SchedResult) ContextSwitches() int {
	n := 0
	for i := 1; i < len(r.Trace); i++ {
		if r.Trace[i].Thread != r.Trace[i-1].Thread {
			n++
		}
	}
	return n
}

// NewSched wraps the shared backend.
func NewSched(inner api.Backend) *Sched {
	s := &Sched{inner: inner, writer: -1, readers: map[int]int{}}
	s.cond = sync.NewCond(&s.mu)
	return s
}

// Inner returns the shared backend (for unscheduled set-up and final reads through separate handles).
func (s *Sched) Inner() api.Backend { return s.inner }

// Handle returns the backend for thread t (threads are numbered from 0). Calls pass straight through while no
// Run is active or when t is not one of the running threads.
func (s *Sched) Handle(t int) *SchedBackend { return &SchedBackend{s: s, t: t} }

func (s *Sched) enabled(st SchedStep) bool {
	switch st.Op {
	case "Lock":
		return s.writer == -1 && len(s.readers) == 0
	case "RLock":
		return s.writer == -1
	}
	return true
}

func (s *Sched) noteGranted(st SchedStep) {
	switch st.Op {
	case "Lock":
		s.writer = st.Thread
	case "Unlock":
		if s.writer == st.Thread {
			s.writer = -1
		}
	case "RLock":
		s.readers[st.Thread]++
	case "RUnlock":
		if s.readers[st.Thread] > 1 {
			s.readers[st.Thread]--
		} else {
			delete(s.readers, st.Thread)
		}
	}
}

func (s *Sched) anyRunning() bool {
	for _, th := range s.threads {
		if th.status == schedRunning {
			return true
		}
	}
	return false
}

// waitQuiet waits (mu held) until no thread is running; false when the watchdog expired.
func (s *Sched) waitQuiet(limit time.Duration) bool {
	if !s.anyRunning() {
		return true
	}
	s.expired = false
	tm := time.AfterFunc(limit, func() {
		s.mu.Lock()
		s.expired = true
		s.cond.Broadcast()
		s.mu.Unlock()
	})
	defer tm.Stop()
	for s.anyRunning() && !s.expired {
		s.cond.Wait()
	}
	return !s.anyRunning()
}

// Run executes the thread bodies under the chooser until all have returned. Bodies must use only handles of
// their own thread number. watchdog bounds the time one thread may run between two backend calls.
func (s *Sched) Run(ch SchedChooser, watchdog time.Duration, bodies ...func()) *SchedResult {
	res := &SchedResult{Panics: map[int]string{}}
	s.mu.Lock()
	s.active = true
	s.threads = make([]*schedThread, len(bodies))
	for i := range bodies {
		s.threads[i] = &schedThread{status: schedIdle}
	}
	s.trace = nil
	s.writer = -1
	s.readers = map[int]int{}
	release := func() {
		// abandon control: let everything run free (used on deadlock / hang)
		s.active = false
		for _, th := range s.threads {
			th.granted = true
		}
		s.cond.Broadcast()
	}
	// start the threads one at a time so that only one ever runs
	for i, body := range bodies {
		th := s.threads[i]
		th.status = schedRunning
		go func(i int, th *schedThread, body func()) {
			defer func() {
				v := recover()
				s.mu.Lock()
				if v != nil {
					th.panicV = v
					th.stack = string(debug.Stack())
				}
				th.status = schedDone
				s.cond.Broadcast()
				s.mu.Unlock()
			}()
			body()
		}(i, th, body)
		if !s.waitQuiet(watchdog) {
			res.Hung = true
			release()
			s.mu.Unlock()
			return res
		}
	}
	step := 0
	for {
		if !s.waitQuiet(watchdog) {
			res.Hung = true
			release()
			break
		}
		var enabled []int
		live := 0
		for i, th := range s.threads {
			if th.status == schedParked {
				live++
				if s.enabled(th.pending) {
					enabled = append(enabled, i)
				}
			}
		}
		if live == 0 {
			break
		}
		if len(enabled) == 0 {
			res.Deadlock = true
			release()
			break
		}
		k := ch.Choose(step, enabled)
		if k < 0 || k >= len(enabled) {
			k = 0
		}
		t := enabled[k]
		th := s.threads[t]
		s.trace = append(s.trace, th.pending)
		s.noteGranted(th.pending)
		th.status = schedRunning
		th.granted = true
		s.cond.Broadcast()
		step++
	}
	s.active = false
	res.Trace = append([]SchedStep(nil), s.trace...)
	for i, th := range s.threads {
		if th.panicV != nil {
			res.Panics[i] = fmt.Sprintf("%v\n%s", th.panicV, th.stack)
		}
	}
	s.mu.Unlock()
	return res
}

// park blocks the calling thread until the scheduler grants the step.
func (s *Sched) park(t int, op, path string) {
	s.mu.Lock()
	if !s.active || t < 0 || t >= len(s.threads) || s.threads[t].status != schedRunning {
		s.mu.Unlock()
		return
	}
	th := s.threads[t]
	th.pending = SchedStep{Thread: t, Op: op, Path: path}
	th.status = schedParked
	th.granted = false
	s.cond.Broadcast()
	for !th.granted {
		s.cond.Wait()
	}
	th.granted = false
	if th.status == schedParked {
		// released without a grant (deadlock / hang): run free from now on
		th.status = schedRunning
	}
	s.mu.Unlock()
}

// SchedBackend is the per-thread view of the shared backend.
type SchedBackend struct {
	s *Sched
	t int
}

var _ api.Backend = (*SchedBackend)(nil)

// Get implements api.Backend.
func (b *SchedBackend) Get(path string) ([]byte, error) {
	b.s.park(b.t, "Get", path)
	return b.s.inner.Get(path)
}

// Put implements api.Backend.
func (b *SchedBackend) Put(path string, data []byte) error {
	b.s.park(b.t, "Put", path)
	return b.s.inner.Put(path, data)
}

// ListAll implements api.Backend.
func (b *SchedBackend) ListAll() ([]string, error) {
	b.s.park(b.t, "ListAll", "")
	return b.s.inner.ListAll()
}

// Rename implements api.Backend.
func (b *SchedBackend) Rename(oldpath, newpath string) error {
	b.s.park(b.t, "Rename", newpath)
	return b.s.inner.Rename(oldpath, newpath)
}

// RenameNX implements api.Backend.
func (b *SchedBackend) RenameNX(oldpath, newpath string) error {
	b.s.park(b.t, "RenameNX", newpath)
	return b.s.inner.RenameNX(oldpath, newpath)
}

// Lock implements api.Backend.
func (b *SchedBackend) Lock() error {
	b.s.park(b.t, "Lock", "")
	return b.s.inner.Lock()
}

// Unlock implements api.Backend.
func (b *SchedBackend) Unlock() error {
	b.s.park(b.t, "Unlock", "")
	return b.s.inner.Unlock()
}

// RLock implements api.Backend.
func (b *SchedBackend) RLock() error {
	b.s.park(b.t, "RLock", "")
	return b.s.inner.RLock()
}

// RUnlock implements api.Backend.
func (b *SchedBackend) RUnlock() error {
	b.s.park(b.t, "RUnlock", "")
	return b.s.inner.RUnlock()
}

// Close implements api.Backend. The shared backend stays open (it belongs to the Sched); never parks, because
// keystore finalizers call it from the runtime's finalizer goroutine.
func (b *SchedBackend) Close() error { return nil }
