package ksrig

import (
	"github.com/go-redis/redis/v7"

	"github.com/cossacklabs/acra/keystore/filesystem"
	keystoreV2 "github.com/cossacklabs/acra/keystore/v2/keystore"
	"github.com/cossacklabs/acra/keystore/v2/keystore/filesystem/backend"
	tokenStorage "github.com/cossacklabs/acra/pseudonymization/storage"

	"verif/harness/internal/rig/fakeredis"
)

// Redis-backed variants of the keystore and token-store factories. The server is rig/fakeredis (no Redis exists in the
// sandbox); everything above the TCP connection is Acra's own code: filesystem.RedisStorage (v1), backend.RedisBackend (v2),
// pseudonymization/storage.RedisStorage (tokens), each through go-redis v7.

// V1RedisStorage opens Acra's RedisStorage (a filesystem.Storage) on the fake server's database db.
func V1RedisStorage(srv *fakeredis.Server, db int) (filesystem.Storage, error) {
	return filesystem.NewRedisStorage(srv.Addr(), "", db, nil)
}

// V1Redis opens a v1 keystore whose key "files" live in the fake Redis server under the prefix dir.
// Every call opens its own connection pool, like a separate process would.
func V1Redis(srv *fakeredis.Server, db int, dir string, master []byte, cacheSize int) (*filesystem.KeyStore, filesystem.Storage, error) {
	st, err := V1RedisStorage(srv, db)
	if err != nil {
		return nil, nil, err
	}
	ks, err := V1WithStorage(dir, master, cacheSize, st)
	return ks, st, err
}

// V2RedisBackend opens (creating the version key if needed) Acra's RedisBackend with the given root on the fake server.
func V2RedisBackend(srv *fakeredis.Server, db int, root string) (*backend.RedisBackend, error) {
	return backend.CreateRedisBackend(&backend.RedisConfig{Options: &redis.Options{Addr: srv.Addr(), DB: db}, RootDir: root})
}

// V2Redis is a v2 keystore over a RedisBackend of its own (own connection pool).
func V2Redis(srv *fakeredis.Server, db int, root string, k V2Keys) (*keystoreV2.ServerKeyStore, *backend.RedisBackend, error) {
	b, err := V2RedisBackend(srv, db, root)
	if err != nil {
		return nil, nil, err
	}
	ks, err := V2OnBackend(b, k)
	return ks, b, err
}

// TokenRedis opens Acra's Redis token storage on the fake server; the client is returned for closing.
func TokenRedis(srv *fakeredis.Server, db int) (*tokenStorage.RedisStorage, *redis.Client, error) {
	c, err := tokenStorage.NewRedisClient(srv.Addr(), "", db, nil)
	if err != nil {
		return nil, nil, err
	}
	st, err := tokenStorage.NewRedisStorage(c)
	return st, c, err
}
